//! Archives from "another writer": the independent spec-level encoder lays out logical archives in
//! ways the crate's own writer never does. Reader-side scenarios over such images and over
//! library-written ones: C03 (opens to exactly the addressed content), C11 (range-filtered open),
//! C20 (lazy open / reads stay in their section), C12 (sync ≡ async readers).

use std::collections::BTreeMap;

use serde::{Deserialize, Serialize};
use serde_json::Value;

use crate::case::{draw_archive, draw_size, Archive, Bnd, Cont, ContPool, Face, Meta, Model, RangeSpec, Sched, Settings, SizeClass};
use crate::disk::{Policy, SimDisk};
use crate::rng::Rng;
use crate::scen::{case_sig, from_value, shrink_archive, shrink_policy, to_value, Ctx, Scenario, Tier};
use crate::scen_life::{draw_ic, write_archive};
use crate::spec::{self, Layout, SpecEntry, SpecHeader};
use crate::sut::{self, Pm, Violation, V};
use crate::{ensure, vio};

#[derive(Clone, Copy, Debug, Serialize, Deserialize, PartialEq, Eq)]
pub struct FEntry {
    pub id: u64,
    pub run: u32,
    /// index into `contents`
    pub c: u32,
}

#[derive(Clone, Debug, Serialize, Deserialize, PartialEq, Eq)]
pub struct ForeignSpec {
    pub entries: Vec<FEntry>,
    pub contents: Vec<Cont>,
    /// 0 contents placed contiguously in order of first use (clustered), 1 shuffled, 2 shuffled
    /// with gaps, 3 reverse order
    pub placement: u8,
    pub layout: Layout,
    pub set: Settings,
    /// stored coordinate integers (the header's six i32 fields)
    pub stored: [i32; 6],
    pub meta: Meta,
}

pub struct Img {
    pub image: Vec<u8>,
    pub header: SpecHeader,
    pub expected: BTreeMap<u64, Vec<u8>>,
    /// id → (offset relative to the tile-data section, length) as the directories say
    pub addr: BTreeMap<u64, (u64, u32)>,
    pub meta: serde_json::Map<String, Value>,
    pub walk: spec::Walk,
    pub foreign: bool,
}

pub fn draw_foreign(rng: &mut Rng, big: bool) -> ForeignSpec {
    let n_entries = if big {
        rng.range(2000, 9000)
    } else {
        match rng.below(10) {
            0 => 0,
            1 => 1,
            2..=6 => 2 + rng.below(30),
            _ => 30 + rng.below(400),
        }
    };
    let n_contents = (1 + rng.below(n_entries.max(1).min(60))) as usize;
    let pool = if rng.chance(30) { ContPool::Colliding } else { ContPool::Mixed };
    let mut contents: Vec<Cont> = Vec::new();
    for _ in 0..n_contents {
        let mut c = Cont::draw(rng, pool);
        c.len = c.len.min(if big { 32 } else { 4000 });
        if !contents.contains(&c) {
            contents.push(c);
        }
    }
    // now and then one very large tile (reads of more than 1 MiB) or one above 64 KiB
    if !big && rng.chance(3) {
        contents.push(Cont { k: 1, seed: rng.below(256) as u32, len: (1 << 20) + 1 + rng.below(1_300_000) as u32 });
    } else if !big && rng.chance(3) {
        contents.push(Cont { k: 2, seed: rng.below(256) as u32, len: 65_537 + rng.below(300_000) as u32 });
    }
    // another writer need not deduplicate: the same bytes may be stored at several offsets
    if rng.chance(25) {
        for i in 0..contents.len().min(4) {
            contents.push(contents[i]);
        }
    }
    let mut entries = Vec::new();
    let maxid = spec::max_valid_id();
    let mut id: u64 = match rng.below(24) {
        0..=5 => 0,
        6..=11 => rng.below(100),
        12..=17 => spec::zoom_base(1 + rng.below(20) as u8).saturating_sub(rng.below(5)),
        // the top of the id domain: the last zoom levels, around 2^62 and 2^63 - zoom 31 ends
        // at (4^32 - 1) / 3 - 1 -, and the very last ids (9-byte varints)
        18 => spec::zoom_base(21 + rng.below(11) as u8).saturating_sub(rng.below(5)),
        19 => (1u64 << 62) - 1 - rng.below(40),
        20 => (1u64 << 62) + rng.log_range(1, 1 << 60),
        21 => maxid - 1 - rng.below(3000),
        _ => rng.below(1 << 30),
    };
    let dense = rng.chance(50);
    // a tenth of the sparse archives spread over the whole domain
    let wide = rng.chance(10);
    for _ in 0..n_entries {
        let run: u32 = match rng.below(20) {
            // rarely the first entry is one run of more than 2^16 ids
            0 if entries.is_empty() && !big && rng.chance(12) => 65_537 + rng.below(70_000) as u32,
            0 => 2 + rng.below(2000) as u32,
            1..=4 => 2 + rng.below(12) as u32,
            _ => 1,
        };
        if id + u64::from(run) >= maxid {
            break;
        }
        let mut ci = rng.below(contents.len() as u64) as usize;
        let mut run = run;
        if run > 12 && contents[ci].len > 64 {
            // long runs only over small contents: keeps re-writes of reader-backed archives cheap
            match contents.iter().position(|c| c.len <= 64) {
                Some(small) => ci = small,
                None => run = 2 + run % 11,
            }
        }
        entries.push(FEntry { id, run, c: ci as u32 });
        let gap = if dense { rng.below(3) } else if wide { rng.log_range(1, 1 << 58) - 1 } else { rng.log_range(1, 1 << 24) - 1 };
        id += u64::from(run) + gap;
    }
    let layout = draw_layout(rng, big);
    let mut stored = [0i32; 6];
    for (i, s) in stored.iter_mut().enumerate() {
        let lim: i64 = if i % 2 == 0 { 1_800_000_000 } else { 900_000_000 };
        *s = match rng.below(5) {
            0 => 0,
            1 => *rng.pick(&[lim, -lim]) as i32,
            2 => *rng.pick(&[21i32, -21, 1, -1, 19, 25, i32::MIN, i32::MAX, i32::MIN + 1]),
            _ => (rng.range(0, (2 * lim) as u64) as i64 - lim) as i32,
        };
    }
    // prefix families: a shorter content that is a prefix of a longer one (placement 4 lets both
    // share one offset with different lengths — overlapping tile ranges are spec-valid)
    let placement = rng.below(5) as u8;
    if placement == 4 || rng.chance(15) {
        let k = contents.len();
        for i in 0..k.min(6) {
            let c = contents[i];
            if c.len > 1 && c.k != 2 {
                let shorter = Cont { len: 1 + rng.below(u64::from(c.len) - 1) as u32, ..c };
                if !contents.contains(&shorter) {
                    contents.push(shorter);
                }
            }
        }
        let n = contents.len() as u64;
        for e in entries.iter_mut() {
            if rng.chance(50) {
                let ci = rng.below(n) as usize;
                if e.run <= 12 || contents[ci].len <= 64 {
                    e.c = ci as u32;
                }
            }
        }
    }
    // large contents are referenced sparingly: at most two single-tile entries per content above
    // 64 KiB, so that re-writing the archive under a one-byte read policy stays far below the
    // per-call operation budget (a workload bound of the generator, not of the crate)
    {
        let small = contents.iter().position(|c| c.len <= 4096).unwrap_or(0);
        let mut refs: std::collections::HashMap<u32, u32> = std::collections::HashMap::new();
        let nc = contents.len();
        for e in entries.iter_mut() {
            let ci = e.c as usize % nc;
            if contents[ci].len > (64 << 10) {
                let r = refs.entry(ci as u32).or_insert(0);
                *r += 1;
                if *r > 2 && contents[small].len <= 4096 {
                    e.c = small as u32;
                } else {
                    e.run = 1;
                }
            }
        }
        let big_total: u64 = contents.iter().filter(|c| c.len > (64 << 10)).map(|c| u64::from(c.len)).sum();
        if big_total > 6_000_000 {
            // several multi-megabyte variants (duplicates, prefix families): keep only the first
            let mut seen = false;
            for (i, c) in contents.clone().iter().enumerate() {
                if c.len > (64 << 10) {
                    if seen {
                        for e in entries.iter_mut() {
                            if e.c as usize % nc == i {
                                e.c = small as u32;
                            }
                        }
                    }
                    seen = true;
                }
            }
        }
    }
    ForeignSpec { entries, contents, placement, set: Settings::draw(rng, layout.ic), layout, stored, meta: Meta::draw(rng) }
}

pub fn draw_layout(rng: &mut Rng, big: bool) -> Layout {
    let mut order = [0u8, 1, 2, 3];
    if rng.chance(60) {
        rng.shuffle(&mut order);
    }
    let mut gaps = [0u32; 5];
    if rng.chance(60) {
        for g in gaps.iter_mut() {
            if rng.chance(50) {
                *g = rng.log_range(1, 300) as u32;
            }
        }
    }
    let mut l = Layout {
        order,
        gaps,
        ic: draw_ic(rng, big),
        levels: if big { 1 + rng.below(3) as u8 } else { *rng.pick(&[0u8, 0, 0, 1, 1, 2, 3]) },
        fanout: if big { 200 + rng.below(2000) as u32 } else { 1 + rng.below(12) as u32 },
        mixed: rng.chance(40),
        shuffle_leaves: rng.chance(50),
        empty_meta: rng.chance(25),
        seed: rng.next_u64(),
        loose_ptr: rng.chance(25),
        kind_coincidence: rng.chance(30),
        strength: if rng.chance(35) { 1 + rng.below(6) as u8 } else { 0 },
        unknown_counters: 0,
    };
    // one archive in eight leaves one or more of the header's three counters at 0 ("unknown");
    // decided by the layout seed so that no other draw of the generator moves
    let m = crate::rng::mix(l.seed, 0xC0_0417);
    if m % 8 == 0 {
        l.unknown_counters = 1 + ((m >> 8) % 7) as u8;
    }
    l
}

pub fn materialise_foreign(f: &ForeignSpec) -> Result<Img, String> {
    // place contents in the data section
    let n = f.contents.len();
    let used_order: Vec<usize> = {
        let mut seen = vec![false; n];
        let mut o = Vec::new();
        for e in &f.entries {
            let c = e.c as usize % n.max(1);
            if !seen[c] {
                seen[c] = true;
                o.push(c);
            }
        }
        o
    };
    let mut order = used_order.clone();
    let mut r = Rng::new(f.layout.seed ^ 0x9191);
    match f.placement {
        1 | 2 => r.shuffle(&mut order),
        3 => order.reverse(),
        _ => {}
    }
    let mut data: Vec<u8> = Vec::new();
    let mut at: Vec<(u64, u32)> = vec![(0, 0); n];
    if f.placement == 4 {
        // longest first, so that prefixes can reuse the offset of an already placed content
        order.sort_by_key(|c| std::cmp::Reverse(f.contents[*c].len));
    }
    let mut placed: Vec<(usize, Vec<u8>)> = Vec::new();
    for c in order {
        if f.placement == 4 {
            let b = f.contents[c].bytes();
            if let Some((d, _)) = placed.iter().find(|(_, db)| db.len() > b.len() && db.starts_with(&b)) {
                at[c] = (at[*d].0, b.len() as u32);
                continue;
            }
            placed.push((c, b));
        }
        if f.placement == 2 && r.chance(50) {
            for _ in 0..1 + r.below(20) {
                data.push(0xEE);
            }
        }
        let b = f.contents[c].bytes();
        at[c] = (data.len() as u64, b.len() as u32);
        data.extend_from_slice(&b);
    }
    let mut tile_entries: Vec<SpecEntry> = Vec::new();
    let mut expected = BTreeMap::new();
    let mut addr = BTreeMap::new();
    let bytes: Vec<Vec<u8>> = f.contents.iter().map(Cont::bytes).collect();
    for e in &f.entries {
        let c = e.c as usize % n.max(1);
        tile_entries.push(SpecEntry { tile_id: e.id, offset: at[c].0, length: at[c].1, run_length: e.run });
        for id in e.id..e.id + u64::from(e.run) {
            expected.insert(id, bytes[c].clone());
            addr.insert(id, at[c]);
        }
    }
    let meta_map = if f.layout.empty_meta { serde_json::Map::new() } else { f.meta.map() };
    let meta_plain = serde_json::to_vec(&f.meta.map()).map_err(|e| e.to_string())?;
    let tmpl = SpecHeader {
        tc: f.set.tc,
        tt: f.set.tt,
        min_zoom: f.set.minz,
        max_zoom: f.set.maxz,
        center_zoom: f.set.cz,
        min_lon: f.stored[0],
        min_lat: f.stored[1],
        max_lon: f.stored[2],
        max_lat: f.stored[3],
        center_lon: f.stored[4],
        center_lat: f.stored[5],
        ..SpecHeader::default()
    };
    let distinct: std::collections::HashSet<(u64, u32)> = tile_entries.iter().map(|e| (e.offset, e.length)).collect();
    let fa = spec::write_foreign(&tile_entries, &data, &meta_plain, &tmpl, &f.layout, distinct.len() as u64, u8::from(f.placement == 0))?;
    // the generator's own output must be spec-valid (harness self-check, not a verdict)
    let v = spec::validate_opts(&fa.image, f.layout.unknown_counters != 0).map_err(|e| format!("foreign writer produced an invalid archive: {e}"))?;
    let addr = if f.layout.kind_coincidence { v.walk.tiles.clone() } else { addr };
    Ok(Img { image: fa.image, header: fa.header, expected, addr, meta: meta_map, walk: v.walk, foreign: true })
}

/// Where an image comes from.
#[derive(Clone, Debug, Serialize, Deserialize)]
pub enum ImageSrc {
    Foreign(ForeignSpec),
    Written { a: Archive, face: Face, w: Policy, scramble: u64 },
}

impl ImageSrc {
    pub fn draw(rng: &mut Rng, foreign_pct: u64, big_pct: u64) -> ImageSrc {
        let big = rng.chance(big_pct);
        if rng.chance(foreign_pct) {
            ImageSrc::Foreign(draw_foreign(rng, big))
        } else {
            let size = if big { SizeClass::Huge } else { draw_size(rng, 0) };
            let ic = draw_ic(rng, big);
            let face = Face::draw(rng);
            ImageSrc::Written { a: draw_archive(rng, size, ic), face, w: Policy::draw(rng, face == Face::Async), scramble: rng.next_u64() }
        }
    }
    pub fn materialise(&self, ctx: &mut Ctx, prop: &str) -> V<Img> {
        match self {
            ImageSrc::Foreign(f) => materialise_foreign(f).map_err(|e| panic_harness(&e)),
            ImageSrc::Written { a, face, w, scramble } => {
                let mut a = a.clone();
                a.materialise();
                let a = &a;
                let image = write_archive(a, *face, &Sched { w: w.clone(), r: Policy::plain() }, *scramble, ctx, prop)?;
                let header = spec::parse_header(&image).map_err(|e| Violation::new(format!("{prop}:written-unparseable"), e))?;
                let walk = spec::walk(&image, &header, spec::Limits::VALID).map_err(|e| Violation::new(format!("{prop}:written-unparseable"), format!("{e:?}")))?;
                let model = Model::of(a);
                Ok(Img { addr: walk.tiles.clone(), image, header, expected: model.tiles, meta: a.meta.map(), walk, foreign: false })
            }
        }
    }
    pub fn shrink(&self) -> Vec<ImageSrc> {
        match self {
            ImageSrc::Foreign(f) => shrink_foreign(f).into_iter().map(ImageSrc::Foreign).collect(),
            ImageSrc::Written { a, face, w, scramble } => {
                let mut out: Vec<ImageSrc> = shrink_archive(a).into_iter().map(|a| ImageSrc::Written { a, face: *face, w: w.clone(), scramble: *scramble }).collect();
                for p in shrink_policy(w) {
                    out.push(ImageSrc::Written { a: a.clone(), face: *face, w: p, scramble: *scramble });
                }
                if *face == Face::Async {
                    out.push(ImageSrc::Written { a: a.clone(), face: Face::Sync, w: w.clone(), scramble: *scramble });
                }
                out
            }
        }
    }
    pub fn is_foreign(&self) -> bool {
        matches!(self, ImageSrc::Foreign(_))
    }
}

fn panic_harness(e: &str) -> Violation {
    panic!("harness: foreign generator failed: {e}");
}

pub fn shrink_foreign(f: &ForeignSpec) -> Vec<ForeignSpec> {
    let mut out = Vec::new();
    let n = f.entries.len();
    if n > 1 {
        out.push(ForeignSpec { entries: f.entries[..n / 2].to_vec(), ..f.clone() });
        out.push(ForeignSpec { entries: f.entries[n / 2..].to_vec(), ..f.clone() });
    }
    if n <= 20 {
        for i in 0..n {
            let mut e = f.entries.clone();
            e.remove(i);
            out.push(ForeignSpec { entries: e, ..f.clone() });
        }
        for i in 0..n {
            if f.entries[i].run > 1 {
                let mut e = f.entries.clone();
                e[i].run = 1;
                out.push(ForeignSpec { entries: e, ..f.clone() });
            }
        }
    }
    if f.contents.iter().any(|c| c.len > 1) {
        out.push(ForeignSpec { contents: f.contents.iter().map(|c| Cont { len: 1, ..*c }).collect(), ..f.clone() });
    }
    let l = &f.layout;
    if l.order != [0, 1, 2, 3] {
        out.push(ForeignSpec { layout: Layout { order: [0, 1, 2, 3], ..l.clone() }, ..f.clone() });
    }
    if l.gaps != [0; 5] {
        out.push(ForeignSpec { layout: Layout { gaps: [0; 5], ..l.clone() }, ..f.clone() });
    }
    if l.levels > 0 {
        out.push(ForeignSpec { layout: Layout { levels: l.levels - 1, ..l.clone() }, ..f.clone() });
    }
    if l.mixed {
        out.push(ForeignSpec { layout: Layout { mixed: false, ..l.clone() }, ..f.clone() });
    }
    if l.shuffle_leaves {
        out.push(ForeignSpec { layout: Layout { shuffle_leaves: false, ..l.clone() }, ..f.clone() });
    }
    if l.ic != 1 {
        out.push(ForeignSpec { layout: Layout { ic: 1, ..l.clone() }, ..f.clone() });
    }
    if l.loose_ptr {
        out.push(ForeignSpec { layout: Layout { loose_ptr: false, ..l.clone() }, ..f.clone() });
    }
    if l.unknown_counters != 0 {
        out.push(ForeignSpec { layout: Layout { unknown_counters: 0, ..l.clone() }, ..f.clone() });
    }
    if l.kind_coincidence {
        out.push(ForeignSpec { layout: Layout { kind_coincidence: false, ..l.clone() }, ..f.clone() });
    }
    if l.strength != 0 {
        out.push(ForeignSpec { layout: Layout { strength: 0, ..l.clone() }, ..f.clone() });
    }
    if f.placement != 0 {
        out.push(ForeignSpec { placement: 0, ..f.clone() });
    }
    if f.meta != Meta::EMPTY {
        out.push(ForeignSpec { meta: Meta::EMPTY, ..f.clone() });
    }
    if f.stored != [0; 6] {
        out.push(ForeignSpec { stored: [0; 6], ..f.clone() });
    }
    out
}

// ---------------------------------------------------------------------------------------------
// C03

#[derive(Clone, Debug, Serialize, Deserialize)]
pub struct OpenCase {
    pub src: ImageSrc,
    pub face: Face,
    pub r: Policy,
}

pub struct ForeignOpen;

impl Scenario for ForeignOpen {
    fn name(&self) -> &'static str {
        "foreign-open"
    }
    fn rule(&self) -> String {
        "archives emitted by the independent spec-level writer (section permutations, gaps, leaf trees of depth 0–3 with mixed entries, runs, back-references, shuffled/reversed data, empty metadata, 4 codecs) opened through sync/async readers under short-read/Pending schedules; distinct = distinct serialized cases; non-trivial = at least one entry".into()
    }
    fn generate(&self, rng: &mut Rng, _tier: Tier, _run: u64) -> Value {
        let big = rng.chance(2);
        let face = Face::draw(rng);
        to_value(&OpenCase { src: ImageSrc::Foreign(draw_foreign(rng, big)), face, r: Policy::draw(rng, face == Face::Async) })
    }
    fn execute(&self, case: &Value, ctx: &mut Ctx) -> V<()> {
        let c: OpenCase = from_value(case);
        let img = c.src.materialise(ctx, "C03")?;
        ctx.evals += 1;
        if !img.expected.is_empty() {
            ctx.sig(case_sig(case));
        }
        check_open_matches(&img, c.face, &c.r, ctx)
    }
    fn shrink(&self, case: &Value) -> Vec<Value> {
        let c: OpenCase = from_value(case);
        let mut out: Vec<Value> = c.src.shrink().into_iter().map(|s| to_value(&OpenCase { src: s, ..c.clone() })).collect();
        for p in shrink_policy(&c.r) {
            out.push(to_value(&OpenCase { r: p, ..c.clone() }));
        }
        if c.face == Face::Async {
            out.push(to_value(&OpenCase { face: Face::Sync, ..c.clone() }));
        }
        out
    }
}

pub fn stored_coord_ok(stored: i32, got: f64) -> bool {
    (got - f64::from(stored) / 1e7).abs() <= 1e-12
}

fn check_open_matches(img: &Img, face: Face, pol: &Policy, ctx: &mut Ctx) -> V<()> {
    let h = &img.header;
    if img.walk.max_depth > 0 {
        ctx.bump(&format!("probe_leaf_depth_{}", img.walk.max_depth), 1);
    }
    let disk = SimDisk::new(img.image.clone(), pol);
    let handle = disk.clone();
    let mut pm = match sut::open(disk, face)? {
        Ok(p) => p,
        Err(e) => vio!("C03:open-failed", "a spec-valid archive does not open: {e}"),
    };
    let ids = sut::ids_sorted(&pm);
    let want: Vec<u64> = img.expected.keys().copied().collect();
    if ids != want {
        let missing: Vec<&u64> = want.iter().filter(|i| ids.binary_search(i).is_err()).take(5).collect();
        let extra: Vec<&u64> = ids.iter().filter(|i| want.binary_search(i).is_err()).take(5).collect();
        vio!("C03:id-set", "opened archive lists {} ids, the directories address {}; missing {:?} extra {:?}", ids.len(), want.len(), missing, extra);
    }
    ensure!(pm.num_tiles() == want.len(), "C03:count", "num_tiles() {} != {} addressed ids", pm.num_tiles(), want.len());
    let all = want.len() <= 1500;
    let mut rng = Rng::new(pol.seed ^ 0x33);
    for (i, (id, bytes)) in img.expected.iter().enumerate() {
        if !all && !(i % 53 == 0 || rng.chance(2)) {
            continue;
        }
        match sut::get(&mut pm, *id, face)? {
            Ok(Some(b)) => ensure!(&b == bytes, "C03:tile-bytes", "tile {id}: got {} bytes that differ from the {} bytes at tile-data offset + entry offset", b.len(), bytes.len()),
            Ok(None) => vio!("C03:tile-missing", "tile {id} is addressed by the directories but reads back as absent"),
            Err(e) => vio!("C03:tile-read-error", "tile {id}: {e}"),
        }
        ctx.bump("tiles_compared", 1);
    }
    for id in want.iter().take(30).flat_map(|i| [i.wrapping_add(1), i.wrapping_sub(1)]).chain([0, u64::MAX]) {
        if img.expected.contains_key(&id) {
            continue;
        }
        match sut::get(&mut pm, id, face)? {
            Ok(None) => {}
            other => vio!("C03:phantom-tile", "id {id} is not addressed but lookup gives {:?}", other.map(|o| o.map(|b| b.len()))),
        }
    }
    // settings and metadata as stored
    let o = sut::observe_settings(&pm);
    ensure!(
        (o.tt, o.tc, o.ic, o.minz, o.maxz, o.cz) == (h.tt, h.tc, h.ic, h.min_zoom, h.max_zoom, h.center_zoom),
        "C03:settings",
        "settings not reported as stored: header {:?} reported {:?}",
        (h.tt, h.tc, h.ic, h.min_zoom, h.max_zoom, h.center_zoom),
        (o.tt, o.tc, o.ic, o.minz, o.maxz, o.cz)
    );
    let st = [h.min_lon, h.min_lat, h.max_lon, h.max_lat, h.center_lon, h.center_lat];
    for i in 0..6 {
        ensure!(stored_coord_ok(st[i], o.coords[i]), "C03:coordinate", "stored coordinate {}e-7 reported as {:?}", st[i], o.coords[i]);
    }
    ensure!(pm.meta_data == img.meta, "C03:metadata", "metadata not reported as stored");
    // the same content must come back after a lookup was disturbed by a transient stream failure
    // or a cancelled request
    disturbed_lookups("C03", &mut pm, &handle, h.data_offset, &img.addr, &img.expected, &want, face, &mut rng, 2, false, ctx)?;
    ctx.absorb(&handle);
    drop(pm);

    // util::read_directories on the same bytes
    let mut d2 = SimDisk::new(img.image.clone(), pol);
    let map = match face {
        Face::Sync => sut::guard("read_directories", || pmtiles2::util::read_directories(&mut d2, sut::comp(h.ic), (h.root_offset, h.root_length), h.leaf_offset, ..))?,
        Face::Async => sut::guard_async("read_directories_async", pmtiles2::util::read_directories_async(&mut d2, sut::comp(h.ic), (h.root_offset, h.root_length), h.leaf_offset, ..))?,
    };
    let map = match map {
        Ok(m) => m,
        Err(e) => vio!("C03:read-directories-failed", "util::read_directories fails on a spec-valid archive: {e}"),
    };
    ensure!(map.len() == img.addr.len(), "C03:read-directories-set", "read_directories yields {} ids, directories address {}", map.len(), img.addr.len());
    for (id, (off, len)) in &img.addr {
        match map.get(id) {
            Some(ol) if ol.offset == *off && ol.length == *len => {}
            other => vio!("C03:read-directories-entry", "read_directories maps tile {id} to {:?}, directories say offset {off} length {len}", other.map(|o| (o.offset, o.length))),
        }
    }
    ctx.absorb(&d2);

    // single-directory lookup on every directory of the tree
    for d in img.walk.dirs.iter().take(40) {
        let raw = &img.image[d.abs_offset as usize..(d.abs_offset + d.length) as usize];
        let dir = match sut::guard("Directory::from_bytes", || pmtiles2::Directory::from_bytes(raw, sut::comp(h.ic)))? {
            Ok(d) => d,
            Err(e) => vio!("C03:directory-parse-failed", "Directory::from_bytes fails on a spec-valid directory: {e}"),
        };
        ensure!(dir.len() == d.entries.len(), "C03:directory-entries", "directory parsed to {} entries, encoder wrote {}", dir.len(), d.entries.len());
        for (i, e) in d.entries.iter().enumerate() {
            let g = dir[i];
            ensure!((g.tile_id, g.offset, g.length, g.run_length) == (e.tile_id, e.offset, e.length, e.run_length), "C03:directory-entries", "entry {i} parsed as {:?}, encoder wrote {:?}", g, e);
        }
        let mut probes: Vec<u64> = Vec::new();
        for e in d.entries.iter().take(60) {
            probes.extend([e.tile_id, e.tile_id.wrapping_sub(1), e.tile_id + u64::from(e.run_length), (e.tile_id + u64::from(e.run_length)).wrapping_sub(1), e.tile_id + u64::from(e.run_length) / 2]);
        }
        probes.extend([0, u64::MAX, rng.next_u64()]);
        for id in probes {
            let want = d.entries.iter().find(|e| e.run_length > 0 && e.tile_id <= id && id - e.tile_id < u64::from(e.run_length));
            let got = sut::guard("find_entry_for_tile_id", || dir.find_entry_for_tile_id(id).copied())?;
            let same = match (want, got) {
                (None, None) => true,
                (Some(w), Some(g)) => (g.tile_id, g.offset, g.length, g.run_length) == (w.tile_id, w.offset, w.length, w.run_length),
                _ => false,
            };
            ensure!(same, "C03:find-entry", "find_entry_for_tile_id({id}) = {:?}, the covering tile entry is {:?}", got, want);
            ctx.bump("find_entry_probes", 1);
        }
    }
    Ok(())
}

// ---------------------------------------------------------------------------------------------
// C11: range-filtered open

#[derive(Clone, Debug, Serialize, Deserialize)]
pub struct PartialCase {
    pub src: ImageSrc,
    pub face: Face,
    pub r: Policy,
    pub ranges: Vec<RangeSpec>,
}

pub struct PartialOpen;

fn steer_points(img: &Img, rng: &mut Rng) -> Vec<u64> {
    let mut pts: Vec<u64> = vec![0, 1, 2, u64::MAX, u64::MAX - 1];
    for d in &img.walk.dirs {
        if let Some(e) = d.entries.first() {
            pts.push(e.tile_id);
        }
        if let Some(e) = d.entries.last() {
            pts.push(e.tile_id + u64::from(e.run_length));
        }
    }
    let ids: Vec<u64> = img.expected.keys().copied().collect();
    for _ in 0..6 {
        if !ids.is_empty() {
            pts.push(ids[rng.usize_below(ids.len())]);
        }
    }
    if let (Some(a), Some(b)) = (ids.first(), ids.last()) {
        pts.push(*a);
        pts.push(*b);
    }
    pts
}

fn draw_range(pts: &[u64], rng: &mut Rng) -> RangeSpec {
    let mut b = |rng: &mut Rng| {
        let base = pts[rng.usize_below(pts.len())];
        let v = match rng.below(6) {
            0 => base.wrapping_add(1),
            1 => base.wrapping_sub(1),
            2 => rng.next_u64() >> rng.below(64),
            _ => base,
        };
        match rng.below(7) {
            0 => Bnd::Unb,
            1..=3 => Bnd::Inc(v),
            _ => Bnd::Exc(v),
        }
    };
    RangeSpec(b(rng), b(rng))
}

impl Scenario for PartialOpen {
    fn name(&self) -> &'static str {
        "partial-open"
    }
    fn rule(&self) -> String {
        "(archive, range) pairs: archives library-written and foreign, with and without (nested) leaves; ranges over all 3×3 bound kinds with endpoints steered onto 0, 1, u64::MAX, leaf first ids, run boundaries ±1 and model ids, incl. empty and inverted; each evaluation = one range on one archive; distinct = distinct (case, range); non-trivial = archive has tiles and the range is not `..`".into()
    }
    fn generate(&self, rng: &mut Rng, _tier: Tier, _run: u64) -> Value {
        let mut src = ImageSrc::draw(rng, 60, 6);
        if rng.chance(1) {
            // one run of 65 535 - 131 073 ids sharing one content (a third of them start at id 0)
            let ic = 1 + rng.below(4) as u8;
            src = ImageSrc::Written { a: draw_archive(rng, SizeClass::LongRun, ic), face: Face::Sync, w: Policy::plain(), scramble: 1 };
        }
        let face = Face::draw(rng);
        // ranges need the materialised image for steering: store a seed-derived list after a dry build
        let mut ctx = Ctx::default();
        let ranges = match src.materialise(&mut ctx, "C11") {
            Ok(img) => {
                let pts = steer_points(&img, rng);
                let mut v = vec![
                    RangeSpec(Bnd::Unb, Bnd::Exc(0)),
                    RangeSpec(Bnd::Unb, Bnd::Inc(0)),
                    RangeSpec(Bnd::Inc(5), Bnd::Exc(2)),
                    RangeSpec(Bnd::Exc(7), Bnd::Inc(7)),
                    RangeSpec(Bnd::Exc(u64::MAX), Bnd::Unb),
                ];
                rng.shuffle(&mut v);
                v.truncate(2);
                for _ in 0..6 {
                    v.push(draw_range(&pts, rng));
                }
                v
            }
            Err(_) => vec![RangeSpec::ALL],
        };
        to_value(&PartialCase { src, face, r: Policy::draw(rng, face == Face::Async), ranges })
    }
    fn execute(&self, case: &Value, ctx: &mut Ctx) -> V<()> {
        let c: PartialCase = from_value(case);
        let img = c.src.materialise(ctx, "C11")?;
        // the full open is the reference
        let full = sut::open(SimDisk::new(img.image.clone(), &Policy::plain()), Face::Sync)?;
        let Ok(mut full) = full else {
            // property quantifies over archives whose full open succeeds
            ctx.bump("skipped_full_open_failed", 1);
            return Ok(());
        };
        let full_ids = sut::ids_sorted(&full);
        if img.walk.max_depth > 0 {
            ctx.bump("probe_archives_with_leaves", 1);
        }
        for (k, range) in c.ranges.iter().enumerate() {
            ctx.evals += 1;
            if !full_ids.is_empty() && *range != RangeSpec::ALL {
                ctx.sig(case_sig(case) ^ (k as u64 + 1).wrapping_mul(0x9E37_79B9));
            }
            let disk = SimDisk::new(img.image.clone(), &c.r);
            let part = sut::open_partial(disk.clone(), c.face, *range)?;
            let mut part = match part {
                Ok(p) => p,
                Err(e) => vio!("C11:partial-open-failed", "full open succeeds but the partial open with {:?} fails: {e}", range),
            };
            let want: Vec<u64> = full_ids.iter().copied().filter(|i| range.contains(*i)).collect();
            let got = sut::ids_sorted(&part);
            if got != want {
                let missing: Vec<&u64> = want.iter().filter(|i| got.binary_search(i).is_err()).take(5).collect();
                let extra: Vec<&u64> = got.iter().filter(|i| want.binary_search(i).is_err()).take(5).collect();
                vio!("C11:id-set", "partial open with {:?} yields {} ids, the full open restricted to the range has {}; missing {:?} extra {:?}", range, got.len(), want.len(), missing, extra);
            }
            if want.is_empty() {
                ctx.bump("probe_empty_result_ranges", 1);
            }
            let step = (want.len() / 40).max(1);
            for id in want.iter().step_by(step) {
                let a = sut::get(&mut full, *id, Face::Sync)?;
                let b = sut::get(&mut part, *id, c.face)?;
                match (a, b) {
                    (Ok(Some(x)), Ok(Some(y))) if x == y => {}
                    (a, b) => vio!("C11:tile-bytes", "tile {id} differs between full and partial open: {:?} vs {:?}", a.map(|o| o.map(|v| v.len())), b.map(|o| o.map(|v| v.len()))),
                }
            }
            // the partial archive keeps answering like the full one after a lookup was disturbed
            // (transient stream failure / cancelled request); reference = the full open's bytes
            if !want.is_empty() {
                let mut reference: BTreeMap<u64, Vec<u8>> = BTreeMap::new();
                let mut probe: Vec<u64> = Vec::new();
                for id in want.iter().step_by((want.len() / 12).max(1)) {
                    if let (Ok(Some(b)), true) = (sut::get(&mut full, *id, Face::Sync)?, img.addr.contains_key(id)) {
                        reference.insert(*id, b);
                        probe.push(*id);
                    }
                }
                let mut drng = Rng::new(c.r.seed ^ k as u64 ^ 0xC11);
                disturbed_lookups("C11", &mut part, &disk, img.header.data_offset, &img.addr, &reference, &probe, c.face, &mut drng, 1, false, ctx)?;
            }
            ctx.absorb(&disk);
            // util::read_directories with the same filter
            let h = &img.header;
            let mut d2 = SimDisk::new(img.image.clone(), &c.r);
            let m = match c.face {
                Face::Sync => sut::guard("read_directories", || pmtiles2::util::read_directories(&mut d2, sut::comp(h.ic), (h.root_offset, h.root_length), h.leaf_offset, range.bounds()))?,
                Face::Async => sut::guard_async("read_directories_async", pmtiles2::util::read_directories_async(&mut d2, sut::comp(h.ic), (h.root_offset, h.root_length), h.leaf_offset, range.bounds()))?,
            };
            match m {
                Ok(m) => {
                    let mut k: Vec<u64> = m.keys().copied().collect();
                    k.sort_unstable();
                    ensure!(k == want, "C11:read-directories-set", "read_directories with {:?} yields {} ids, expected {}", range, k.len(), want.len());
                }
                Err(e) => vio!("C11:read-directories-failed", "read_directories with {:?} fails: {e}", range),
            }
        }
        Ok(())
    }
    fn shrink(&self, case: &Value) -> Vec<Value> {
        let c: PartialCase = from_value(case);
        let mut out: Vec<Value> = Vec::new();
        if c.ranges.len() > 1 {
            for i in 0..c.ranges.len() {
                out.push(to_value(&PartialCase { ranges: vec![c.ranges[i]], ..c.clone() }));
            }
        }
        out.extend(c.src.shrink().into_iter().map(|s| to_value(&PartialCase { src: s, ..c.clone() })));
        for p in shrink_policy(&c.r) {
            out.push(to_value(&PartialCase { r: p, ..c.clone() }));
        }
        if c.face == Face::Async {
            out.push(to_value(&PartialCase { face: Face::Sync, ..c.clone() }));
        }
        out
    }
}

// ---------------------------------------------------------------------------------------------
// C20: lazy open, reads stay inside their section

#[derive(Clone, Debug, Serialize, Deserialize)]
pub struct LazyCase {
    pub src: ImageSrc,
    pub face: Face,
    pub r: Policy,
    pub range: RangeSpec,
    pub lookups: u32,
}

pub struct LazyOpen;

fn inside(set: &[(u64, u64)], allowed: &[(u64, u64)]) -> Option<(u64, u64)> {
    // returns a read interval (or part) not covered by `allowed`
    'outer: for &(a, b) in set {
        let mut cur = a;
        let mut al: Vec<(u64, u64)> = allowed.iter().copied().filter(|(x, y)| y > x).collect();
        al.sort_unstable();
        for (x, y) in al {
            if x <= cur && cur < y {
                cur = y;
                if cur >= b {
                    continue 'outer;
                }
            }
        }
        if cur < b {
            return Some((cur, b));
        }
    }
    None
}

impl Scenario for LazyOpen {
    fn name(&self) -> &'static str {
        "lazy-open"
    }
    fn rule(&self) -> String {
        "recording disk during open (full or range-filtered, sync/async, short reads and Pending) and during each lookup; archives foreign (gaps, permuted sections) and library-written; each evaluation = one open or one lookup; distinct = distinct (case, looked-up id); non-trivial = archive has tile data".into()
    }
    fn generate(&self, rng: &mut Rng, _tier: Tier, _run: u64) -> Value {
        let src = ImageSrc::draw(rng, 70, 3);
        let face = Face::draw(rng);
        let range = if rng.chance(70) {
            RangeSpec::ALL
        } else {
            let v = rng.log_range(1, 1 << 40);
            *rng.pick(&[RangeSpec(Bnd::Unb, Bnd::Exc(v)), RangeSpec(Bnd::Inc(v), Bnd::Unb), RangeSpec(Bnd::Inc(v / 2), Bnd::Inc(v))])
        };
        to_value(&LazyCase { src, face, r: Policy::draw(rng, face == Face::Async), range, lookups: 12 })
    }
    fn execute(&self, case: &Value, ctx: &mut Ctx) -> V<()> {
        let c: LazyCase = from_value(case);
        let img = c.src.materialise(ctx, "C20")?;
        let h = &img.header;
        let disk = SimDisk::new(img.image.clone(), &c.r).recording(false);
        let handle = disk.clone();
        ctx.evals += 1;
        let opened = if c.range == RangeSpec::ALL { sut::open(disk, c.face)? } else { sut::open_partial(disk, c.face, c.range)? };
        let mut pm: Pm = match opened {
            Ok(p) => p,
            Err(e) => vio!("C20:open-failed", "valid archive does not open: {e}"),
        };
        let rs = handle.read_set();
        let allowed = [(0u64, 127u64), (h.meta_offset, h.meta_offset + h.meta_length), (h.root_offset, h.root_offset + h.root_length), (h.leaf_offset, h.leaf_offset + h.leaf_length)];
        if let Some((a, b)) = inside(&rs, &allowed) {
            let in_data = a < h.data_offset + h.data_length && b > h.data_offset;
            vio!(if in_data { "C20:open-read-tile-data" } else { "C20:open-read-outside-sections" }, "opening read bytes [{a},{b}) which lie outside header, metadata and directory sections (tile data is [{},{}))", h.data_offset, h.data_offset + h.data_length);
        }
        if h.data_length > 0 {
            ctx.sig(case_sig(case));
        }
        // lookups
        let ids: Vec<u64> = img.expected.keys().copied().filter(|i| c.range.contains(*i)).collect();
        let mut rng = Rng::new(c.r.seed ^ 0xC20);
        let mut probes: Vec<u64> = Vec::new();
        for _ in 0..c.lookups {
            if !ids.is_empty() {
                probes.push(ids[rng.usize_below(ids.len())]);
            }
        }
        probes.extend([u64::MAX, ids.last().map_or(3, |l| l + 1)]);
        for id in probes {
            handle.clear_log();
            ctx.evals += 1;
            let got = sut::get(&mut pm, id, c.face)?;
            let rs = handle.read_set();
            match img.addr.get(&id).filter(|_| c.range.contains(id)) {
                Some(&(off, len)) => {
                    let a = h.data_offset + off;
                    let want = vec![(a, a + u64::from(len))];
                    ensure!(rs == want, "C20:lookup-read-range", "lookup of tile {id} read {:?}; the tile occupies {:?}", rs, want);
                    ensure!(matches!(&got, Ok(Some(b)) if Some(b) == img.expected.get(&id)), "C20:lookup-bytes", "lookup of tile {id} returned the wrong bytes");
                    ctx.sig(case_sig(case) ^ id.wrapping_mul(0x9E37_79B9_7F4A_7C15));
                }
                None => {
                    ensure!(rs.is_empty(), "C20:absent-lookup-read", "lookup of absent tile {id} read {:?}", rs);
                    ensure!(matches!(got, Ok(None)), "C20:absent-lookup-result", "lookup of absent tile {id} did not report 'no such tile'");
                }
            }
        }
        // a transient failure or a cancellation during one lookup must not disturb the lookups
        // that follow: the disturbed call may fail, the next ones read exactly their own range
        disturbed_lookups("C20", &mut pm, &handle, h.data_offset, &img.addr, &img.expected, &ids, c.face, &mut rng, 3, true, ctx)?;
        // a memory-backed tile needs no read at all
        let _ = pm.add_tile(1, vec![1u8, 2, 3]);
        handle.clear_log();
        let _ = sut::get(&mut pm, 1, c.face)?;
        ensure!(handle.read_set().is_empty(), "C20:memory-lookup-read", "lookup of an in-memory tile read from the stream");
        ctx.absorb(&handle);
        Ok(())
    }
    fn shrink(&self, case: &Value) -> Vec<Value> {
        let c: LazyCase = from_value(case);
        let mut out: Vec<Value> = c.src.shrink().into_iter().map(|s| to_value(&LazyCase { src: s, ..c.clone() })).collect();
        for p in shrink_policy(&c.r) {
            out.push(to_value(&LazyCase { r: p, ..c.clone() }));
        }
        if c.face == Face::Async {
            out.push(to_value(&LazyCase { face: Face::Sync, ..c.clone() }));
        }
        if c.range != RangeSpec::ALL {
            out.push(to_value(&LazyCase { range: RangeSpec::ALL, ..c.clone() }));
        }
        out
    }
}

/// Lookups on reader-backed tiles disturbed by a fault that leaves the stream usable: one stream
/// operation times out once (`Fault::Transient`), or — async face — the request is cancelled (its
/// future dropped) at a `Pending` (`Fault::Stall`). The disturbed call may report an error or be
/// cancelled, never return wrong bytes; every lookup that follows must return exactly the stored
/// bytes (and, with `ranges`, read exactly the tile's own byte range). `ids` are the reader-backed
/// ids that may be probed; `addr` maps them to (offset within tile data, length).
#[allow(clippy::too_many_arguments)]
pub fn disturbed_lookups(p: &str, pm: &mut Pm, handle: &SimDisk, data_offset: u64, addr: &BTreeMap<u64, (u64, u32)>, expected: &BTreeMap<u64, Vec<u8>>, ids: &[u64], face: Face, rng: &mut Rng, rounds: u32, ranges: bool, ctx: &mut Ctx) -> V<()> {
    if ids.is_empty() {
        return Ok(());
    }
    let mut first_at: std::collections::HashMap<u64, u64> = std::collections::HashMap::new();
    for id in ids {
        if let Some((o, _)) = addr.get(id) {
            first_at.entry(*o).or_insert(*id);
        }
    }
    let behind = |e: u64| first_at.get(&e).copied();
    for round in 0..rounds {
        // a successful lookup first: its end position is what a stale cursor cache would hold
        let prev = ids[rng.usize_below(ids.len())];
        let prev_end = addr.get(&prev).map(|(o, l)| o + u64::from(*l));
        let _ = sut::get(pm, prev, face)?;
        // the disturbed lookup: often the tile stored right behind the previous one
        let id = match prev_end.and_then(behind) {
            Some(n) if rng.chance(40) => n,
            _ => ids[rng.usize_below(ids.len())],
        };
        let Some(&(off, len)) = addr.get(&id) else { continue };
        let at = handle.nops() + rng.below(4);
        let cancel = face == Face::Async && rng.chance(50);
        let what = if cancel { "a cancelled request for" } else { "a transient failure while reading" };
        let r = if cancel {
            handle.set_fault(crate::disk::Fault::Stall { at });
            let r = sut::get_cancel(pm, id, handle)?;
            ctx.bump(if r.is_none() { "fired_cancellations" } else { "cancellations_not_reached" }, 1);
            r
        } else {
            handle.set_fault(crate::disk::Fault::Transient { at, n: 1 + rng.below(2) });
            let before = handle.stats().faults_fired;
            let r = sut::get(pm, id, face)?;
            // counted only when an operation of this call really timed out
            ctx.bump(if handle.stats().faults_fired > before { "fired_transient_timeouts" } else { "transient_timeouts_not_reached" }, 1);
            Some(r)
        };
        handle.set_fault(crate::disk::Fault::None);
        match &r {
            Some(Ok(Some(b))) => ensure!(Some(b) == expected.get(&id), format!("{p}:disturbed-lookup-wrong-bytes"), "lookup of tile {id} (round {round}, {what} it) returned the wrong bytes"),
            Some(Ok(None)) => vio!(format!("{p}:disturbed-lookup-wrong-bytes"), "lookup of tile {id} (round {round}, {what} it) reported 'no such tile'"),
            _ => {}
        }
        // follow-ups: the tiles stored right behind the previous and the disturbed one, both of
        // those again, and one more
        let end = off + u64::from(len);
        for fid in [prev_end.and_then(behind), behind(end), Some(id), Some(prev), Some(ids[rng.usize_below(ids.len())])].into_iter().flatten() {
            let Some(&(o2, l2)) = addr.get(&fid) else { continue };
            handle.clear_log();
            ctx.evals += 1;
            let got = sut::get(pm, fid, face)?;
            if ranges {
                let a = data_offset + o2;
                let want = vec![(a, a + u64::from(l2))];
                let rs = handle.read_set();
                ensure!(rs == want, format!("{p}:lookup-read-range-after-disturbed-lookup"), "after {what} tile {id}, the lookup of tile {fid} read {:?}; the tile occupies {:?}", rs, want);
            }
            ensure!(matches!(&got, Ok(Some(b)) if Some(b) == expected.get(&fid)), format!("{p}:lookup-bytes-after-disturbed-lookup"), "after {what} tile {id}, the lookup of tile {fid} returned {}", match &got { Ok(Some(b)) => format!("{} wrong bytes", b.len()), Ok(None) => "'no such tile'".into(), Err(e) => format!("an error: {e}") });
        }
    }
    Ok(())
}

// ---------------------------------------------------------------------------------------------
// C03: the three real-world fixtures written by the upstream Go writer

pub struct Fixtures;

const FIXTURES: [&str; 3] = ["stamen_toner(raster)CC-BY+ODbL_z3.pmtiles", "protomaps(vector)ODbL_firenze.pmtiles", "protomaps_vector_planet_odbl_z10_without_data.pmtiles"];

impl Scenario for Fixtures {
    fn name(&self) -> &'static str {
        "upstream-fixtures"
    }
    fn rule(&self) -> String {
        "the three archives in /repo/test produced by the upstream Go writer (one with 1.4 M addressed tiles and leaf directories), opened through the sync and the async reader under a short-read (and Pending) schedule and compared with the independent reader on the same bytes; enumerated: 3 files × 2 faces".into()
    }
    fn enumerated(&self, _tier: Tier) -> Option<u64> {
        Some(6)
    }
    fn generate(&self, _rng: &mut Rng, _tier: Tier, run: u64) -> Value {
        serde_json::json!({"file": FIXTURES[(run % 3) as usize], "face": if run < 3 { "Sync" } else { "Async" }})
    }
    fn execute(&self, case: &Value, ctx: &mut Ctx) -> V<()> {
        ctx.evals += 1;
        ctx.sig(case_sig(case));
        let name = case["file"].as_str().unwrap_or("");
        let face = if case["face"] == "Async" { Face::Async } else { Face::Sync };
        let Ok(image) = std::fs::read(std::path::Path::new("/repo/test").join(name)) else {
            ctx.bump("fixture_missing", 1);
            return Ok(());
        };
        let h = spec::parse_header(&image).map_err(|e| Violation::new("harness-fixture", e)).unwrap_or_else(|v| panic!("harness: fixture {name}: {}", v.detail));
        let walk = spec::walk(&image, &h, spec::Limits::VALID).unwrap_or_else(|e| panic!("harness: independent reader cannot walk fixture {name}: {e:?}"));
        let pol = Policy { rd: crate::disk::Xfer::Random(50_000), wr: crate::disk::Xfer::Full, pend: if face == Face::Async { crate::disk::Pend { rate: 5, burst: 2, inline: 50, ctl: true } } else { crate::disk::Pend::NEVER }, seed: 3 };
        let disk = SimDisk::new(image.clone(), &pol);
        let handle = disk.clone();
        let mut pm = match sut::open(disk, face)? {
            Ok(p) => p,
            Err(e) => vio!("C03:fixture-open-failed", "upstream fixture {name} does not open: {e}"),
        };
        let ids = sut::ids_sorted(&pm);
        ensure!(ids.len() == walk.tiles.len() && ids.iter().copied().eq(walk.tiles.keys().copied()), "C03:fixture-id-set", "fixture {name}: opened archive lists {} ids, its directories address {}", ids.len(), walk.tiles.len());
        ensure!(h.n_addressed == walk.tiles.len() as u64, "C03:fixture-self-check", "fixture {name}: header says {} addressed tiles, independent walk finds {}", h.n_addressed, walk.tiles.len());
        let step = (ids.len() / 300).max(1);
        let mut compared = 0u64;
        for (id, (off, len)) in walk.tiles.iter().step_by(step) {
            // the planet fixture ships without its tile data: only ranges inside the file are read
            let Ok(want) = spec::tile_bytes(&image, &h, *off, *len) else { continue };
            match sut::get(&mut pm, *id, face)? {
                Ok(Some(b)) => ensure!(b == want, "C03:fixture-tile-bytes", "fixture {name}: tile {id} differs from the bytes at tile-data offset + entry offset"),
                other => vio!("C03:fixture-tile-missing", "fixture {name}: tile {id}: {:?}", other.map(|o| o.map(|b| b.len()))),
            }
            compared += 1;
        }
        ctx.bump("fixture_tiles_compared", compared);
        ctx.bump("fixture_ids_compared", ids.len() as u64);
        let o = sut::observe_settings(&pm);
        ensure!((o.tt, o.tc, o.ic, o.minz, o.maxz, o.cz) == (h.tt, h.tc, h.ic, h.min_zoom, h.max_zoom, h.center_zoom), "C03:fixture-settings", "fixture {name}: settings not reported as stored");
        let st = [h.min_lon, h.min_lat, h.max_lon, h.max_lat, h.center_lon, h.center_lat];
        for i in 0..6 {
            ensure!(stored_coord_ok(st[i], o.coords[i]), "C03:fixture-coordinate", "fixture {name}: stored coordinate {}e-7 reported as {:?}", st[i], o.coords[i]);
        }
        let meta: serde_json::Value = if h.meta_length == 0 { serde_json::json!({}) } else { spec::decompress(h.ic, &image[h.meta_offset as usize..(h.meta_offset + h.meta_length) as usize]).ok().and_then(|b| serde_json::from_slice(&b).ok()).unwrap_or(serde_json::Value::Null) };
        ensure!(serde_json::Value::Object(pm.meta_data.clone()) == meta, "C03:fixture-metadata", "fixture {name}: metadata not reported as stored");
        ctx.absorb(&handle);
        Ok(())
    }
}
