//! C06 at the utility level: `util::write_directories(_async)` on a positioned simulated disk,
//! with entry-list sizes steered so the encoded root lands just below, inside and just above the
//! window (16 257, 16 384], every codec and several initial leaf sizes.

use pmtiles2::Directory;
use serde::{Deserialize, Serialize};
use serde_json::Value;

use crate::case::Face;
use crate::disk::{Policy, SimDisk};
use crate::rng::Rng;
use crate::scen::{case_sig, from_value, shrink_policy, to_value, Ctx, Scenario, Tier};
use crate::scen_stream::{draw_entries, entries_to_crate};
use crate::spec::{self, SpecEntry};
use crate::sut::{self, V};
use crate::{ensure, vio};

pub const ROOT_BUDGET: u64 = 16_257;

#[derive(Clone, Debug, Serialize, Deserialize)]
pub struct SpillCase {
    pub n: u32,
    pub seed: u64,
    pub ic: u8,
    pub start: Option<u32>,
    pub pos: u32,
    pub beyond: u32,
    pub face: Face,
    pub pol: Policy,
    /// regular list (consecutive ids, constant length, contiguous offsets): compresses so well
    /// that many thousand entries fit the root under a compressing codec
    #[serde(default)]
    pub regular: bool,
}

pub struct SpillUtil;

fn regular_entries(seed: u64, n: u32) -> Vec<SpecEntry> {
    let base = seed % 100;
    (0..u64::from(n)).map(|i| SpecEntry { tile_id: base + i, offset: 4 * i, length: 4, run_length: 1 }).collect()
}

fn entries_of(seed: u64, n: u32) -> Vec<SpecEntry> {
    let mut v = draw_entries(&mut Rng::new(seed), 24_000, true);
    v.truncate(n as usize);
    v
}

/// Number of entries whose independently encoded root is closest to `target` bytes.
fn steer(seed: u64, ic: u8, target: usize) -> u32 {
    let all = entries_of(seed, 24_000);
    let size = |n: usize| spec::compress(ic, &spec::encode_dir(&all[..n])).map_or(0, |b| b.len());
    let (mut lo, mut hi) = (1usize, all.len());
    while lo < hi {
        let mid = (lo + hi) / 2;
        if size(mid) < target {
            lo = mid + 1;
        } else {
            hi = mid;
        }
    }
    lo as u32
}

impl Scenario for SpillUtil {
    fn name(&self) -> &'static str {
        "spill-util"
    }
    fn rule(&self) -> String {
        "util::write_directories / write_directories_async on a disk positioned at P (0, 1, 64, 127, 5000, 20000, 40000) with old content around and fragmenting writes; high-entropy entry lists of 0..24000 entries with the count steered by bisection so the encoded root lands just below, inside and just above (16257, 16384]; 4 codecs; initial leaf sizes {default, 1, 2..64, 4096, larger than the list}; distinct = distinct serialized cases; non-trivial = list does not fit the root (spill path)".into()
    }
    fn generate(&self, rng: &mut Rng, tier: Tier, _run: u64) -> Value {
        let seed = rng.below(8); // few lists: steering results are reusable and sizes comparable
        let ic = *rng.pick(&[1u8, 1, 2, 2, 4, 4, 3]);
        let n = match rng.below(10) {
            0 => rng.below(50) as u32,
            1 => rng.below(1500) as u32,
            2 | 3 => steer(seed, ic, 16_257 - rng.below(40) as usize).saturating_sub(rng.below(3) as u32),
            4 | 5 => steer(seed, ic, 16_258 + rng.below(126) as usize),
            6 | 7 => steer(seed, ic, 16_385 + rng.below(200) as usize) + rng.below(3) as u32,
            8 => steer(seed, ic, 16_257) + rng.below(2) as u32,
            _ => 3000 + rng.below(if tier == Tier::Quick { 6000 } else { 20_000 }) as u32,
        };
        let start = match rng.below(8) {
            0 | 1 => None,
            2 => Some(1),
            3 => Some(2 + rng.below(63) as u32),
            4 => Some(4096),
            5 => Some(100 + rng.below(900) as u32),
            6 => Some(n + 1 + rng.below(10) as u32),
            _ => Some(1 + rng.below(16) as u32),
        };
        // tiny initial leaf sizes over long lists are quadratic (many doublings over many leaves)
        let mut n = if matches!(start, Some(s) if s < 8) { n.min(6500) } else { n };
        let mut start = start;
        if rng.chance(12) {
            // make sure the size-doubling loop is actually exercised
            start = Some(1 + rng.below(3) as u32);
            n = 2500 + rng.below(4000) as u32;
        }
        let face = Face::draw(rng);
        let regular = rng.chance(12);
        let (n, ic) = if regular { (*rng.pick(&[4000u32, 4064, 4065, 4100, 6000, 9000, 16_384, 16_400, 17_000, 20_000, 20_447, 33_000, 70_000]), *rng.pick(&[2u8, 4, 3, 2, 4, 1, 1])) } else { (n, ic) };
        to_value(&SpillCase { n, seed, ic, start, pos: *rng.pick(&[0u32, 0, 1, 64, 127, 5000, 20_000, 40_000]), beyond: if rng.chance(50) { 30_000 } else { 0 }, face, pol: Policy::draw(rng, face == Face::Async), regular })
    }
    fn execute(&self, case: &Value, ctx: &mut Ctx) -> V<()> {
        let c: SpillCase = from_value(case);
        ctx.evals += 1;
        let list = if c.regular { regular_entries(c.seed, c.n) } else { entries_of(c.seed, c.n) };
        if c.regular {
            ctx.bump("probe_regular_lists", 1);
        }
        let es = entries_to_crate(&list);
        let comp = sut::comp(c.ic);
        let p = c.pos as usize;
        let mut pre = vec![0x3C_u8; p];
        let mut old = vec![0u8; c.beyond as usize];
        Rng::new(c.seed ^ 0xBE).fill(&mut old);
        pre.extend_from_slice(&old);
        let mut disk = SimDisk::new(pre, &c.pol).at(u64::from(c.pos)).budget(3_000_000);
        let strat = c.start.map(|s| pmtiles2::util::WriteDirsOverflowStrategy::OnlyLeafPointers { start_size: Some(s as usize) });
        let r = match c.face {
            Face::Sync => sut::guard("write_directories", || pmtiles2::util::write_directories(&mut disk, &es, comp, strat))?,
            Face::Async => sut::guard_async("write_directories_async", pmtiles2::util::write_directories_async(&mut disk, &es, comp, strat))?,
        };
        ctx.absorb(&disk);
        if disk.budget_exceeded() {
            vio!("C06:runaway", "write_directories issued more than 3·10^6 stream operations for {} entries (leaf size never converges?)", c.n);
        }
        let leaves = match r {
            Ok(l) => l,
            Err(e) => vio!("C06:write-directories-failed", "write_directories failed on a fault-free stream: {e}"),
        };
        // (the fit measurement comes AFTER the call under test, so that it cannot absorb state
        // left behind by an earlier call on this thread)
        // does the whole list fit? measured with the crate's own directory serialiser of the SAME
        // face (the sync and async codec back ends may differ by a few bytes, so "fits" is
        // face-specific)
        let whole_len = {
            let d: Directory = es.clone().into();
            let mut buf = SimDisk::plain(Vec::new());
            let r = match c.face {
                Face::Sync => sut::guard("Directory::to_writer", || d.to_writer(&mut buf, comp))?,
                Face::Async => sut::guard_async("Directory::to_async_writer", d.to_async_writer(&mut buf, comp))?,
            };
            match r {
                Ok(()) => buf.image_len() as u64,
                Err(e) => vio!("C06:dir-write-failed", "serialising the full list failed: {e}"),
            }
        };
        let fits = whole_len <= ROOT_BUDGET;
        if (16_200..=16_500).contains(&whole_len) {
            ctx.bump("probe_lists_near_the_window", 1);
        }
        if whole_len > ROOT_BUDGET && whole_len <= 16_384 {
            ctx.bump("probe_lists_inside_the_window", 1);
        }
        let img = disk.image();
        ensure!(img.len() >= p && img[..p].iter().all(|b| *b == 0x3C), "C06:bytes-before-start-clobbered", "bytes before the start position {p} were modified");
        let end = disk.pos() as usize;
        ensure!(end >= p && end <= img.len(), "C06:position", "stream left at {end}, start was {p}, stream has {} bytes", img.len());
        let root_len = (end - p) as u64;
        ensure!(root_len <= ROOT_BUDGET, "C06:root-budget", "root directory is {root_len} bytes (> 16257); the whole list encodes to {whole_len} bytes");
        let root_raw = &img[p..end];
        let root = spec::decompress(c.ic, root_raw).and_then(|b| spec::decode_dir(&b));
        let root = match root {
            Ok(r) => r,
            Err(e) => vio!("C06:root-undecodable", "root directory written at {p}..{end} does not decode: {e}"),
        };
        ctx.trace(|| format!("{} entries, whole list encodes to {whole_len} bytes (fits: {fits}); written root {root_len} bytes with {} entries, {} leaf bytes, start size {:?}, {} stream ops", c.n, root.len(), leaves.len(), c.start, disk.nops()));
        if fits {
            ensure!(leaves.is_empty(), "C06:leaf-section-not-empty", "the list fits the root ({whole_len} bytes) but {} leaf bytes were returned", leaves.len());
            ensure!(root == list, "C06:root-entries", "single root directory decodes to {} entries, the list has {}", root.len(), list.len());
        } else {
            ctx.sig(case_sig(case));
            ctx.bump("probe_spills", 1);
            ensure!(!root.is_empty() && root.iter().all(|e| e.run_length == 0), "C06:root-mixed", "after a spill the root must contain only leaf pointers ({} entries, {} of them tile entries)", root.len(), root.iter().filter(|e| e.run_length != 0).count());
            let mut resolved: Vec<SpecEntry> = Vec::with_capacity(list.len());
            let mut expect_off = 0u64;
            for (i, ptr) in root.iter().enumerate() {
                ensure!(ptr.offset == expect_off, "C06:pointer-offset", "leaf pointer {i} has offset {} (expected the cumulative offset {expect_off})", ptr.offset);
                let a = ptr.offset as usize;
                let b = a + ptr.length as usize;
                ensure!(b <= leaves.len(), "C06:pointer-length", "leaf pointer {i} covers {a}..{b} but the leaf section has {} bytes", leaves.len());
                let leaf = match spec::decompress(c.ic, &leaves[a..b]).and_then(|x| spec::decode_dir(&x)) {
                    Ok(l) => l,
                    Err(e) => vio!("C06:leaf-undecodable", "leaf {i} ({a}..{b}) does not decode: {e}"),
                };
                ensure!(leaf.first().map(|e| e.tile_id) == Some(ptr.tile_id), "C06:pointer-first-id", "leaf pointer {i} carries tile id {} but its leaf starts at {:?}", ptr.tile_id, leaf.first().map(|e| e.tile_id));
                resolved.extend(leaf);
                expect_off += u64::from(ptr.length);
            }
            ensure!(expect_off == leaves.len() as u64, "C06:leaf-section-length", "pointer lengths sum to {expect_off} but the leaf section has {} bytes", leaves.len());
            ensure!(resolved == list, "C06:mapping", "resolving root and leaves gives {} entries, the list has {} (first difference at {:?})", resolved.len(), list.len(), resolved.iter().zip(&list).position(|(a, b)| a != b));
            let first_leaf_entries = root.len();
            if let Some(s) = c.start {
                if (first_leaf_entries as u64) < (u64::from(c.n) + u64::from(s) - 1) / u64::from(s.max(1)) {
                    ctx.bump("probe_leaf_size_doubled", 1);
                }
            }
        }
        // the crate's own reader resolves the assembled bytes to the same tiles
        let mut assembled = img[..end].to_vec();
        assembled.extend_from_slice(&leaves);
        let mut rd = SimDisk::plain(assembled);
        let m = sut::guard("read_directories", || pmtiles2::util::read_directories(&mut rd, comp, (u64::from(c.pos), root_len), end as u64, ..))?;
        match m {
            Ok(m) => {
                ensure!(m.len() == list.len(), "C06:readback", "read_directories on the written bytes yields {} tiles, the list addresses {}", m.len(), list.len());
                for e in list.iter().step_by((list.len() / 200).max(1)) {
                    ensure!(matches!(m.get(&e.tile_id), Some(ol) if ol.offset == e.offset && ol.length == e.length), "C06:readback", "read_directories maps tile {} to {:?}, expected offset {} length {}", e.tile_id, m.get(&e.tile_id).map(|o| (o.offset, o.length)), e.offset, e.length);
                }
            }
            Err(e) => vio!("C06:readback", "read_directories fails on the written root + leaves: {e}"),
        }
        Ok(())
    }
    fn shrink(&self, case: &Value) -> Vec<Value> {
        let c: SpillCase = from_value(case);
        let mut out = Vec::new();
        if c.pos != 0 {
            out.push(to_value(&SpillCase { pos: 0, ..c.clone() }));
        }
        if c.beyond != 0 {
            out.push(to_value(&SpillCase { beyond: 0, ..c.clone() }));
        }
        for p in shrink_policy(&c.pol) {
            out.push(to_value(&SpillCase { pol: p, ..c.clone() }));
        }
        if c.face == Face::Async {
            out.push(to_value(&SpillCase { face: Face::Sync, ..c.clone() }));
        }
        if c.ic != 1 {
            out.push(to_value(&SpillCase { ic: 1, ..c.clone() }));
        }
        if c.start.is_some() {
            out.push(to_value(&SpillCase { start: None, ..c.clone() }));
        }
        for n in [c.n / 2, c.n * 3 / 4, c.n.saturating_sub(100), c.n.saturating_sub(1)] {
            if n < c.n {
                out.push(to_value(&SpillCase { n, ..c.clone() }));
            }
        }
        out
    }
}
