//! C06 at the utility level: `util::write_directories(_async)` on a positioned simulated disk,
//! with entry-list sizes steered so the encoded root lands just below, inside and just above the
//! window (16 257, 16 384], every codec and several initial leaf sizes.

use pmtiles2::Directory;
use serde::{Deserialize, Serialize};
use serde_json::Value;

use crate::case::Face;
use crate::disk::{Policy, SimDisk};
use crate::rng::Rng;
use crate::scen::{case_sig, from_value, shrink_policy, to_value, Ctx, Scenario, Tier};
use crate::scen_stream::{draw_entries, entries_to_crate};
use crate::spec::{self, SpecEntry};
use crate::sut::{self, V};
use crate::{ensure, vio};

pub const ROOT_BUDGET: u64 = 16_257;

#[derive(Clone, Debug, Serialize, Deserialize)]
pub struct SpillCase {
    pub n: u32,
    pub seed: u64,
    pub ic: u8,
    pub start: Option<u32>,
    pub pos: u32,
    pub beyond: u32,
    pub face: Face,
    pub pol: Policy,
    /// regular list (consecutive ids, constant length, contiguous offsets): compresses so well
    /// that many thousand entries fit the root under a compressing codec
    #[serde(default)]
    pub regular: bool,
    /// 0: lists as above (`n` entries). 2: a *noise-like* list (ids, run lengths, lengths and
    /// scattered offsets of mixed magnitudes: the varint bytes do not compress, a codec makes the
    /// directory a few bytes longer) whose plain encoding is tuned to `target` bytes. 3: a nearly
    /// regular list with explicit offsets at varint boundaries (2^7k - 1, 2^7k), plain encoding
    /// tuned to `target` bytes.
    #[serde(default)]
    pub kind: u8,
    #[serde(default)]
    pub target: u32,
}

fn varint_len(v: u64) -> usize {
    (((64 - v.max(1).leading_zeros()) as usize) + 6) / 7
}

/// A value >= 1 of random magnitude: every further 7 bits are half as likely.
fn magnitude(r: &mut Rng, max_bytes: u32) -> u64 {
    let mut k = 1;
    while k < max_bytes && r.chance(50) {
        k += 1;
    }
    let lo = if k == 1 { 1 } else { 1u64 << (7 * (k - 1)) };
    let hi = 1u64 << (7 * k);
    lo + r.below(hi - lo)
}

fn noise_entries(seed: u64, count: usize) -> Vec<SpecEntry> {
    let mut r = Rng::new(seed ^ 0x4015E);
    let mut id = r.below(1000);
    let mut out = Vec::with_capacity(count);
    for _ in 0..count {
        let delta = magnitude(&mut r, 4);
        let run = 1 + (magnitude(&mut r, 3) - 1) % delta;
        id += delta;
        out.push(SpecEntry { tile_id: id, offset: magnitude(&mut r, 6), length: magnitude(&mut r, 4) as u32, run_length: run as u32 });
    }
    out
}

fn boundary_entries(seed: u64, count: usize) -> Vec<SpecEntry> {
    let mut r = Rng::new(seed ^ 0xB0D4);
    let specials = [127u64, 128, 126, 16_383, 16_384, 2_097_151, 2_097_152, (1 << 28) - 1, 1 << 28, (1 << 35) - 1, 1 << 35, (1 << 42) - 1];
    let mut id = r.below(100);
    let mut off = if r.chance(50) { *r.pick(&specials) } else { 0 };
    let every = 1 + r.below(900);
    let len = 1 + r.below(100) as u32;
    let mut out = Vec::with_capacity(count);
    for i in 0..count as u64 {
        if i > 0 && i % every == 0 {
            let v = *r.pick(&specials);
            if v != off {
                off = v;
            }
        }
        out.push(SpecEntry { tile_id: id, offset: off, length: len, run_length: 1 });
        id += 1;
        off += u64::from(len);
    }
    out
}

/// Cuts / pads `list` so that its plain encoding is `target` bytes long (exactly, when the last
/// entries' length fields can absorb the remainder; otherwise as close from below as possible).
fn tune_to(mut list: Vec<SpecEntry>, target: usize) -> Vec<SpecEntry> {
    // largest prefix that does not exceed the target
    let size = |l: &[SpecEntry]| spec::encode_dir(l).len();
    let (mut lo, mut hi) = (0usize, list.len());
    while lo < hi {
        let mid = (lo + hi + 1) / 2;
        if size(&list[..mid]) <= target {
            lo = mid;
        } else {
            hi = mid - 1;
        }
    }
    list.truncate(lo);
    for back in 0..list.len().min(8) {
        let sz = size(&list);
        if sz >= target {
            break;
        }
        let i = list.len() - 1 - back;
        let b = varint_len(u64::from(list[i].length));
        let g = (target - sz).min(5 - b);
        if g == 0 {
            continue;
        }
        let old = list[i].length;
        list[i].length = if b + g == 5 { 1 << 28 } else { 1u32 << (7 * (b + g - 1)) };
        // keep a following contiguous entry contiguous
        if i + 1 < list.len() && list[i + 1].offset == list[i].offset + u64::from(old) {
            let shift = u64::from(list[i].length) - u64::from(old);
            for e in list[i + 1..].iter_mut() {
                e.offset += shift;
            }
        }
        if size(&list) > target {
            // (a neighbour's coding changed): undo, settle for "close from below"
            list[i].length = old;
            break;
        }
    }
    list
}

fn tuned_list(kind: u8, seed: u64, target: u32) -> Vec<SpecEntry> {
    let t = target as usize;
    let base = if kind == 2 { noise_entries(seed, t / 4 + 16) } else { boundary_entries(seed, t / 4 + 16) };
    tune_to(base, t)
}

pub struct SpillUtil;

fn regular_entries(seed: u64, n: u32) -> Vec<SpecEntry> {
    let base = seed % 100;
    (0..u64::from(n)).map(|i| SpecEntry { tile_id: base + i, offset: 4 * i, length: 4, run_length: 1 }).collect()
}

fn entries_of(seed: u64, n: u32) -> Vec<SpecEntry> {
    let mut v = draw_entries(&mut Rng::new(seed), 24_000, true);
    v.truncate(n as usize);
    v
}

/// Number of entries whose independently encoded root is closest to `target` bytes.
fn steer(seed: u64, ic: u8, target: usize) -> u32 {
    let all = entries_of(seed, 24_000);
    let size = |n: usize| spec::compress(ic, &spec::encode_dir(&all[..n])).map_or(0, |b| b.len());
    let (mut lo, mut hi) = (1usize, all.len());
    while lo < hi {
        let mid = (lo + hi) / 2;
        if size(mid) < target {
            lo = mid + 1;
        } else {
            hi = mid;
        }
    }
    lo as u32
}

impl Scenario for SpillUtil {
    fn name(&self) -> &'static str {
        "spill-util"
    }
    fn rule(&self) -> String {
        "util::write_directories / write_directories_async on a disk positioned at P (0, 1, 64, 127, 5000, 20000, 40000) with old content around and fragmenting writes; high-entropy entry lists of 0..24000 entries with the count steered by bisection so the encoded root lands just below, inside and just above (16257, 16384]; 4 codecs; initial leaf sizes {default, 1, 2..64, 4096, larger than the list}; distinct = distinct serialized cases; non-trivial = list does not fit the root (spill path)".into()
    }
    fn generate(&self, rng: &mut Rng, tier: Tier, _run: u64) -> Value {
        let seed = rng.below(8); // few lists: steering results are reusable and sizes comparable
        let ic = *rng.pick(&[1u8, 1, 2, 2, 4, 4, 3]);
        let n = match rng.below(10) {
            0 => rng.below(50) as u32,
            1 => rng.below(1500) as u32,
            2 | 3 => steer(seed, ic, 16_257 - rng.below(40) as usize).saturating_sub(rng.below(3) as u32),
            4 | 5 => steer(seed, ic, 16_258 + rng.below(126) as usize),
            6 | 7 => steer(seed, ic, 16_385 + rng.below(200) as usize) + rng.below(3) as u32,
            8 => steer(seed, ic, 16_257) + rng.below(2) as u32,
            _ => 3000 + rng.below(if tier == Tier::Quick { 6000 } else { 20_000 }) as u32,
        };
        let start = match rng.below(8) {
            0 | 1 => None,
            2 => Some(1),
            3 => Some(2 + rng.below(63) as u32),
            4 => Some(4096),
            5 => Some(100 + rng.below(900) as u32),
            6 => Some(n + 1 + rng.below(10) as u32),
            _ => Some(1 + rng.below(16) as u32),
        };
        // tiny initial leaf sizes over long lists are quadratic (many doublings over many leaves)
        let mut n = if matches!(start, Some(s) if s < 8) { n.min(6500) } else { n };
        let mut start = start;
        if rng.chance(12) {
            // make sure the size-doubling loop is actually exercised
            start = Some(1 + rng.below(3) as u32);
            n = 2500 + rng.below(4000) as u32;
        }
        let face = Face::draw(rng);
        let regular = rng.chance(12);
        let (n, ic) = if regular { (*rng.pick(&[4000u32, 4064, 4065, 4100, 6000, 9000, 16_384, 16_400, 17_000, 20_000, 20_447, 33_000, 70_000]), *rng.pick(&[2u8, 4, 3, 2, 4, 1, 1])) } else { (n, ic) };
        let mut case = SpillCase { n, seed, ic, start, pos: *rng.pick(&[0u32, 0, 1, 64, 127, 5000, 20_000, 40_000]), beyond: if rng.chance(50) { 30_000 } else { 0 }, face, pol: Policy::draw(rng, face == Face::Async), regular, kind: 0, target: 0 };
        // a quarter of the cases: lists whose *plain* encoding is tuned to a byte count around the
        // budget - noise-like ones (a codec expands them by a few bytes: "the plain form fits" does
        // not imply "the compressed form fits"), and nearly regular ones with explicit offsets at
        // varint boundaries (exact byte counts 16 250..16 262, codec none mostly)
        let mut r2 = Rng::new(rng.next_u64());
        if r2.chance(25) && !regular {
            if r2.chance(50) {
                case.kind = 2;
                case.ic = *r2.pick(&[4u8, 2, 3, 4, 2, 1]);
                case.target = (16_257 + 6 - r2.below(48)) as u32;
            } else {
                case.kind = 3;
                case.ic = *r2.pick(&[1u8, 1, 1, 2, 4]);
                case.target = (16_250 + r2.below(13)) as u32;
            }
            case.seed = r2.below(1 << 20);
            if matches!(case.start, Some(s) if s < 8) {
                case.start = Some(64);
            }
        }
        to_value(&case)
    }
    fn execute(&self, case: &Value, ctx: &mut Ctx) -> V<()> {
        let c: SpillCase = from_value(case);
        ctx.evals += 1;
        let list = if c.kind >= 2 {
            ctx.bump(if c.kind == 2 { "probe_noise_lists_tuned_to_a_plain_size" } else { "probe_boundary_offset_lists_tuned_to_a_plain_size" }, 1);
            tuned_list(c.kind, c.seed, c.target)
        } else if c.regular {
            regular_entries(c.seed, c.n)
        } else {
            entries_of(c.seed, c.n)
        };
        let c = SpillCase { n: list.len() as u32, ..c };
        if c.regular {
            ctx.bump("probe_regular_lists", 1);
        }
        let es = entries_to_crate(&list);
        let comp = sut::comp(c.ic);
        let p = c.pos as usize;
        let mut pre = vec![0x3C_u8; p];
        let mut old = vec![0u8; c.beyond as usize];
        Rng::new(c.seed ^ 0xBE).fill(&mut old);
        pre.extend_from_slice(&old);
        let mut disk = SimDisk::new(pre, &c.pol).at(u64::from(c.pos)).budget(3_000_000);
        let strat = c.start.map(|s| pmtiles2::util::WriteDirsOverflowStrategy::OnlyLeafPointers { start_size: Some(s as usize) });
        let r = match c.face {
            Face::Sync => sut::guard("write_directories", || pmtiles2::util::write_directories(&mut disk, &es, comp, strat))?,
            Face::Async => sut::guard_async("write_directories_async", pmtiles2::util::write_directories_async(&mut disk, &es, comp, strat))?,
        };
        ctx.absorb(&disk);
        if disk.budget_exceeded() {
            vio!("C06:runaway", "write_directories issued more than 3·10^6 stream operations for {} entries (leaf size never converges?)", c.n);
        }
        let leaves = match r {
            Ok(l) => l,
            Err(e) => vio!("C06:write-directories-failed", "write_directories failed on a fault-free stream: {e}"),
        };
        // (the fit measurement comes AFTER the call under test, so that it cannot absorb state
        // left behind by an earlier call on this thread)
        // does the whole list fit? measured with the crate's own directory serialiser of the SAME
        // face (the sync and async codec back ends may differ by a few bytes, so "fits" is
        // face-specific)
        let whole_len = {
            let d: Directory = es.clone().into();
            let mut buf = SimDisk::plain(Vec::new());
            let r = match c.face {
                Face::Sync => sut::guard("Directory::to_writer", || d.to_writer(&mut buf, comp))?,
                Face::Async => sut::guard_async("Directory::to_async_writer", d.to_async_writer(&mut buf, comp))?,
            };
            match r {
                Ok(()) => buf.image_len() as u64,
                Err(e) => vio!("C06:dir-write-failed", "serialising the full list failed: {e}"),
            }
        };
        let fits = whole_len <= ROOT_BUDGET;
        if c.kind >= 2 {
            let plain = spec::encode_dir(&list).len() as u64;
            if plain == u64::from(c.target) {
                ctx.bump("probe_tuned_lists_hit_their_plain_size_exactly", 1);
            }
            if plain <= ROOT_BUDGET && !fits {
                ctx.bump("probe_plain_form_fits_but_compressed_form_does_not", 1);
            }
            if plain == ROOT_BUDGET + 1 && c.ic == 1 {
                ctx.bump("probe_uncompressed_list_one_byte_over_the_budget", 1);
            }
        }
        if (16_200..=16_500).contains(&whole_len) {
            ctx.bump("probe_lists_near_the_window", 1);
        }
        if whole_len > ROOT_BUDGET && whole_len <= 16_384 {
            ctx.bump("probe_lists_inside_the_window", 1);
        }
        let img = disk.image();
        ensure!(img.len() >= p && img[..p].iter().all(|b| *b == 0x3C), "C06:bytes-before-start-clobbered", "bytes before the start position {p} were modified");
        let end = disk.pos() as usize;
        ensure!(end >= p && end <= img.len(), "C06:position", "stream left at {end}, start was {p}, stream has {} bytes", img.len());
        let root_len = (end - p) as u64;
        ensure!(root_len <= ROOT_BUDGET, "C06:root-budget", "root directory is {root_len} bytes (> 16257); the whole list encodes to {whole_len} bytes");
        let root_raw = &img[p..end];
        let root = spec::decompress(c.ic, root_raw).and_then(|b| spec::decode_dir(&b));
        let root = match root {
            Ok(r) => r,
            Err(e) => vio!("C06:root-undecodable", "root directory written at {p}..{end} does not decode: {e}"),
        };
        ctx.trace(|| format!("{} entries, whole list encodes to {whole_len} bytes (fits: {fits}); written root {root_len} bytes with {} entries, {} leaf bytes, start size {:?}, {} stream ops", c.n, root.len(), leaves.len(), c.start, disk.nops()));
        if fits {
            ensure!(leaves.is_empty(), "C06:leaf-section-not-empty", "the list fits the root ({whole_len} bytes) but {} leaf bytes were returned", leaves.len());
            ensure!(root == list, "C06:root-entries", "single root directory decodes to {} entries, the list has {}", root.len(), list.len());
        } else {
            ctx.sig(case_sig(case));
            ctx.bump("probe_spills", 1);
            ensure!(!root.is_empty() && root.iter().all(|e| e.run_length == 0), "C06:root-mixed", "after a spill the root must contain only leaf pointers ({} entries, {} of them tile entries)", root.len(), root.iter().filter(|e| e.run_length != 0).count());
            let mut resolved: Vec<SpecEntry> = Vec::with_capacity(list.len());
            let mut expect_off = 0u64;
            for (i, ptr) in root.iter().enumerate() {
                ensure!(ptr.offset == expect_off, "C06:pointer-offset", "leaf pointer {i} has offset {} (expected the cumulative offset {expect_off})", ptr.offset);
                let a = ptr.offset as usize;
                let b = a + ptr.length as usize;
                ensure!(b <= leaves.len(), "C06:pointer-length", "leaf pointer {i} covers {a}..{b} but the leaf section has {} bytes", leaves.len());
                let leaf = match spec::decompress(c.ic, &leaves[a..b]).and_then(|x| spec::decode_dir(&x)) {
                    Ok(l) => l,
                    Err(e) => vio!("C06:leaf-undecodable", "leaf {i} ({a}..{b}) does not decode: {e}"),
                };
                ensure!(leaf.first().map(|e| e.tile_id) == Some(ptr.tile_id), "C06:pointer-first-id", "leaf pointer {i} carries tile id {} but its leaf starts at {:?}", ptr.tile_id, leaf.first().map(|e| e.tile_id));
                resolved.extend(leaf);
                expect_off += u64::from(ptr.length);
            }
            ensure!(expect_off == leaves.len() as u64, "C06:leaf-section-length", "pointer lengths sum to {expect_off} but the leaf section has {} bytes", leaves.len());
            ensure!(resolved == list, "C06:mapping", "resolving root and leaves gives {} entries, the list has {} (first difference at {:?})", resolved.len(), list.len(), resolved.iter().zip(&list).position(|(a, b)| a != b));
            let first_leaf_entries = root.len();
            if let Some(s) = c.start {
                if (first_leaf_entries as u64) < (u64::from(c.n) + u64::from(s) - 1) / u64::from(s.max(1)) {
                    ctx.bump("probe_leaf_size_doubled", 1);
                }
            }
        }
        // the crate's own reader resolves the assembled bytes to the same tiles
        let addressed: u64 = list.iter().map(|e| u64::from(e.run_length)).sum();
        if addressed > 300_000 {
            // (the crate's reader expands runs into one map entry per tile: not repeated for
            // lists whose runs address millions of tiles)
            ctx.bump("readback_skipped_long_runs", 1);
            return Ok(());
        }
        let mut assembled = img[..end].to_vec();
        assembled.extend_from_slice(&leaves);
        let mut rd = SimDisk::plain(assembled);
        let m = sut::guard("read_directories", || pmtiles2::util::read_directories(&mut rd, comp, (u64::from(c.pos), root_len), end as u64, ..))?;
        match m {
            Ok(m) => {
                ensure!(m.len() as u64 == addressed, "C06:readback", "read_directories on the written bytes yields {} tiles, the list addresses {}", m.len(), addressed);
                for e in list.iter().step_by((list.len() / 200).max(1)) {
                    ensure!(matches!(m.get(&e.tile_id), Some(ol) if ol.offset == e.offset && ol.length == e.length), "C06:readback", "read_directories maps tile {} to {:?}, expected offset {} length {}", e.tile_id, m.get(&e.tile_id).map(|o| (o.offset, o.length)), e.offset, e.length);
                }
            }
            Err(e) => vio!("C06:readback", "read_directories fails on the written root + leaves: {e}"),
        }
        Ok(())
    }
    fn shrink(&self, case: &Value) -> Vec<Value> {
        let c: SpillCase = from_value(case);
        let mut out = Vec::new();
        if c.pos != 0 {
            out.push(to_value(&SpillCase { pos: 0, ..c.clone() }));
        }
        if c.beyond != 0 {
            out.push(to_value(&SpillCase { beyond: 0, ..c.clone() }));
        }
        for p in shrink_policy(&c.pol) {
            out.push(to_value(&SpillCase { pol: p, ..c.clone() }));
        }
        if c.face == Face::Async {
            out.push(to_value(&SpillCase { face: Face::Sync, ..c.clone() }));
        }
        if c.ic != 1 {
            out.push(to_value(&SpillCase { ic: 1, ..c.clone() }));
        }
        if c.start.is_some() {
            out.push(to_value(&SpillCase { start: None, ..c.clone() }));
        }
        for n in [c.n / 2, c.n * 3 / 4, c.n.saturating_sub(100), c.n.saturating_sub(1)] {
            if n < c.n && c.kind < 2 {
                out.push(to_value(&SpillCase { n, ..c.clone() }));
            }
        }
        out
    }
}
