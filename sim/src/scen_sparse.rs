//! Archives of many GiB on a sparse simulated stream: tile data beyond 4 GiB, tiles of equal length
//! at offsets that agree modulo 2^32, a metadata section whose length is a multiple of 2^32. The
//! image is assembled by hand from the independent encoder's pieces (header, one root directory,
//! metadata, tile bytes at chosen offsets, zeros everywhere else), so what it addresses is known by
//! construction. Serves C03 (opens to what it addresses), C04 (edits + save + reopen on top of
//! it), C16 (backing vs memory) and C19 (non-object metadata is refused whatever its length).

use std::collections::BTreeMap;

use serde::{Deserialize, Serialize};
use serde_json::Value;

use crate::case::{non_object_json, Face};
use crate::disk::{Policy, SimDisk, Sparse};
use crate::rng::Rng;
use crate::scen::{case_sig, from_value, shrink_policy, to_value, Ctx, Scenario, Tier};
use crate::spec::{self, SpecEntry, SpecHeader};
use crate::sut::{self, V};
use crate::{ensure, vio};

#[derive(Clone, Debug, Serialize, Deserialize)]
pub struct GiantCase {
    pub seed: u64,
    pub ic: u8,
    /// number of directory entries
    pub n: u32,
    /// where the tile-data section starts: 0 right behind the other sections, 1 just below 2^32,
    /// 2 a little above 2^32, 3 above 2^40
    pub data_at: u8,
    /// metadata section length = k·2^32 (the compressed document, then zeros); 0 = as long as the
    /// document
    pub meta_k: u8,
    /// (C19) the metadata document is valid JSON but not an object
    pub bad_meta: Option<u8>,
    pub face: Face,
    pub r: Policy,
    /// (C04) number of edits before the save
    pub edits: u32,
}

pub struct SparseGiant {
    pub prop: &'static str,
}

pub struct Giant {
    pub sparse: Sparse,
    pub header: SpecHeader,
    pub expected: BTreeMap<u64, Vec<u8>>,
    /// id -> (offset relative to the tile-data section, length)
    pub addr: BTreeMap<u64, (u64, u32)>,
}

fn content(seed: u64, off: u64, len: u32) -> Vec<u8> {
    let mut v = vec![0u8; len as usize];
    Rng::new(seed ^ off.wrapping_mul(0x9E37_79B9_7F4A_7C15) ^ u64::from(len)).fill(&mut v);
    if let Some(b) = v.first_mut() {
        // never all zeros: a read from a hole must not look right by accident
        *b |= 1;
    }
    v
}

pub fn build(c: &GiantCase) -> Giant {
    let mut r = Rng::new(c.seed);
    // placements: (relative offset, length); pairs of equal length whose offsets agree mod 2^32
    let mut places: Vec<(u64, u32)> = Vec::new();
    let mut taken: Vec<(u64, u64)> = Vec::new();
    let mut put = |off: u64, len: u32, places: &mut Vec<(u64, u32)>| {
        let end = off + u64::from(len);
        if taken.iter().all(|(a, b)| end <= *a || off >= *b) {
            taken.push((off, end));
            places.push((off, len));
            true
        } else {
            false
        }
    };
    while (places.len() as u32) < c.n {
        let cap = if r.chance(10) { 3000 } else { 40 };
        let len = 1 + r.below(cap) as u32;
        let base = match r.below(6) {
            0 => r.below(5000),
            1 => (1u64 << 32) - 1 - r.below(100),
            2 => (1u64 << 32) + r.below(5000),
            3 => r.below(8) * (1u64 << 32) + r.below(100_000),
            4 => (1u64 << 40) + r.log_range(1, 1 << 36),
            _ => r.log_range(1, 1 << 34),
        };
        if put(base, len, &mut places) && r.chance(50) {
            // the same length again k·2^32 further on
            let twin = base + (1 + r.below(5)) * (1u64 << 32);
            put(twin, len, &mut places);
        }
    }
    r.shuffle(&mut places);
    let mut entries: Vec<SpecEntry> = Vec::new();
    let mut expected = BTreeMap::new();
    let mut addr = BTreeMap::new();
    let mut id = r.below(50);
    for (off, len) in &places {
        let run = if r.chance(15) { 2 + r.below(3) as u32 } else { 1 };
        entries.push(SpecEntry { tile_id: id, offset: *off, length: *len, run_length: run });
        for k in 0..u64::from(run) {
            expected.insert(id + k, content(c.seed, *off, *len));
            addr.insert(id + k, (*off, *len));
        }
        id += u64::from(run) + r.below(4);
    }
    let root = spec::compress(c.ic, &spec::encode_dir(&entries)).expect("oracle codec");
    let doc = match c.bad_meta {
        Some(k) => non_object_json(k),
        None => format!("{{\"name\":\"giant\",\"seed\":{}}}", c.seed % 1000),
    };
    let meta = spec::compress(c.ic, doc.as_bytes()).expect("oracle codec");
    let mut h = SpecHeader { ic: c.ic, tc: 1, tt: 1, clustered: 0, max_zoom: 12, ..SpecHeader::default() };
    h.root_offset = 127;
    h.root_length = root.len() as u64;
    h.meta_offset = h.root_offset + h.root_length + r.below(20);
    h.meta_length = if c.meta_k == 0 { meta.len() as u64 } else { u64::from(c.meta_k) << 32 };
    h.leaf_offset = h.meta_offset + h.meta_length;
    h.leaf_length = 0;
    let after = h.leaf_offset;
    h.data_offset = match c.data_at {
        0 => after + r.below(50),
        1 => after.max((1u64 << 32) - 1 - r.below(3000)),
        2 => after.max((1u64 << 32) + r.below(100_000)),
        _ => after.max((1u64 << 40) + r.log_range(1, 1 << 38)),
    };
    h.data_length = places.iter().map(|(o, l)| o + u64::from(*l)).max().unwrap_or(0);
    h.n_addressed = expected.len() as u64;
    h.n_entries = entries.len() as u64;
    h.n_contents = places.len() as u64;
    let mut segs: Vec<(u64, Vec<u8>)> = vec![(0, spec::encode_header(&h).to_vec()), (h.root_offset, root), (h.meta_offset, meta)];
    for (off, len) in &places {
        segs.push((h.data_offset + off, content(c.seed, *off, *len)));
    }
    segs.sort_by_key(|s| s.0);
    for w in segs.windows(2) {
        assert!(w[0].0 + w[0].1.len() as u64 <= w[1].0, "harness: overlapping segments in a sparse archive");
    }
    let len = h.data_offset + h.data_length;
    Giant { sparse: Sparse { segs, len }, header: h, expected, addr }
}

impl Scenario for SparseGiant {
    fn name(&self) -> &'static str {
        "sparse-giant"
    }
    fn rule(&self) -> String {
        "hand-assembled archives on a sparse read-only stream of up to ~2^41 bytes: tile data starting below / above 2^32 / above 2^40, tiles of equal length at offsets that agree modulo 2^32, optional metadata section of k·2^32 bytes; C03: open + every tile + disturbed lookups; C04: edits on top, save, restart, reopen against the map model; C16: written as opened vs every tile re-added from memory; C19: non-object metadata must be refused whatever the section length; distinct = distinct serialized cases; all non-trivial".into()
    }
    fn generate(&self, rng: &mut Rng, _tier: Tier, _run: u64) -> Value {
        let face = Face::draw(rng);
        let mut ic = 1 + rng.below(4) as u8;
        let bad = self.prop == "C19";
        // a section of k·2^32 bytes needs a codec whose stream ends by itself
        let meta_k = if bad && rng.chance(80) || rng.chance(10) { 1 + rng.below(3) as u8 } else { 0 };
        if meta_k > 0 && ic == 1 {
            ic = *rng.pick(&[2u8, 3, 4]);
        }
        // an object followed by zeros is not what a writer emits: only the refused kind is padded
        let meta_k = if bad { meta_k } else { 0 };
        to_value(&GiantCase {
            seed: rng.next_u64(),
            ic,
            n: 2 + rng.below(40) as u32,
            data_at: rng.below(4) as u8,
            meta_k,
            bad_meta: if bad { Some(rng.below(256) as u8) } else { None },
            face,
            r: Policy::draw(rng, face == Face::Async),
            edits: rng.below(12) as u32,
        })
    }
    fn execute(&self, case: &Value, ctx: &mut Ctx) -> V<()> {
        let c: GiantCase = from_value(case);
        let p = self.prop;
        let g = build(&c);
        ctx.evals += 1;
        ctx.sig(case_sig(case));
        if g.header.data_offset + g.header.data_length > 1 << 32 {
            ctx.bump("probe_archives_beyond_4_gib", 1);
        }
        let disk = SimDisk::sparse(g.sparse.clone(), &c.r);
        let handle = disk.clone();
        let opened = sut::open(disk, c.face)?;
        if c.bad_meta.is_some() {
            ensure!(opened.is_err(), "C19:non-object-metadata-accepted", "an archive whose metadata section ({} bytes) holds `{}` opened successfully", g.header.meta_length, crate::scen_life::clip(&non_object_json(c.bad_meta.unwrap_or(0))));
            ctx.bump("refused_non_object_metadata_in_giant_sections", 1);
            return Ok(());
        }
        let mut pm = match opened {
            Ok(pm) => pm,
            Err(e) => vio!(format!("{p}:open-failed"), "a spec-valid archive of {} bytes does not open: {e}", g.sparse.len),
        };
        let want: Vec<u64> = g.expected.keys().copied().collect();
        let check_all = |pm: &mut sut::Pm, model: &BTreeMap<u64, Vec<u8>>, face: Face, what: &str| -> V<()> {
            let ids = sut::ids_sorted(pm);
            let keys: Vec<u64> = model.keys().copied().collect();
            ensure!(ids == keys, format!("{p}:id-set"), "{what}: the archive lists {} ids, expected {}", ids.len(), keys.len());
            for (id, bytes) in model {
                match sut::get(pm, *id, face)? {
                    Ok(Some(b)) => ensure!(&b == bytes, format!("{p}:tile-bytes"), "{what}: tile {id} returns {} bytes that differ from the {} expected", b.len(), bytes.len()),
                    Ok(None) => vio!(format!("{p}:tile-missing"), "{what}: tile {id} reads back as absent"),
                    Err(e) => vio!(format!("{p}:tile-read-error"), "{what}: tile {id}: {e}"),
                }
            }
            Ok(())
        };
        if p == "C03" || p == "C04" {
            check_all(&mut pm, &g.expected, c.face, "opened archive")?;
        }
        let mut rng = Rng::new(c.seed ^ 0x61A7);
        match p {
            "C03" => {
                crate::scen_foreign::disturbed_lookups("C03", &mut pm, &handle, g.header.data_offset, &g.addr, &g.expected, &want, c.face, &mut rng, 2, false, ctx)?;
            }
            "C04" => {
                let mut model = g.expected.clone();
                for i in 0..c.edits {
                    let id = if rng.chance(60) && !want.is_empty() { want[rng.usize_below(want.len())] } else { rng.below(200) };
                    match rng.below(4) {
                        0 => {
                            sut::guard("remove_tile", || pm.remove_tile(id))?;
                            model.remove(&id);
                        }
                        1 => {
                            // the same bytes as a reader-backed tile, now also held in memory
                            if let Some(b) = g.expected.get(&want[rng.usize_below(want.len())]).cloned() {
                                let ok = sut::guard("add_tile", || pm.add_tile(id, b.clone()))?;
                                ensure!(ok.is_ok(), "C04:add-failed", "add_tile failed");
                                model.insert(id, b);
                            }
                        }
                        2 => {
                            let b = content(c.seed ^ 0xED17, u64::from(i), 1 + rng.below(60) as u32);
                            let ok = sut::guard("add_tile", || pm.add_tile(id, b.clone()))?;
                            ensure!(ok.is_ok(), "C04:add-failed", "add_tile failed");
                            model.insert(id, b);
                        }
                        _ => {
                            let got = sut::get(&mut pm, id, c.face)?;
                            ensure!(matches!(&got, Ok(g) if g.as_ref() == model.get(&id)), "C04:stale-or-wrong-content", "edit {i}: lookup of tile {id} disagrees with the map");
                        }
                    }
                }
                let mut out = SimDisk::new(Vec::new(), &Policy::plain());
                match sut::save(pm, &mut out, c.face)? {
                    Ok(()) => {}
                    Err(e) => vio!("C04:save-failed", "saving an edited giant archive failed: {e}"),
                }
                let mut back = match sut::open(SimDisk::new(out.image(), &c.r), c.face)? {
                    Ok(pm) => pm,
                    Err(e) => vio!("C04:reopen-failed", "the archive just saved does not open: {e}"),
                };
                check_all(&mut back, &model, c.face, "saved and reopened")?;
            }
            "C16" => {
                let save = |pm: sut::Pm| -> V<Vec<u8>> {
                    let mut out = SimDisk::new(Vec::new(), &Policy::plain());
                    match sut::save(pm, &mut out, c.face)? {
                        Ok(()) => Ok(out.image()),
                        Err(e) => vio!("C16:save-failed", "writing a valid archive failed: {e}"),
                    }
                };
                let as_opened = save(pm)?;
                let mut pm2 = match sut::open(SimDisk::sparse(g.sparse.clone(), &c.r), c.face)? {
                    Ok(pm) => pm,
                    Err(e) => vio!("C16:open-failed", "second open failed: {e}"),
                };
                let mut ids = want.clone();
                rng.shuffle(&mut ids);
                for id in ids {
                    let b = g.expected[&id].clone();
                    let _ = sut::guard("add_tile", || pm2.add_tile(id, b))?;
                }
                let from_memory = save(pm2)?;
                ensure!(as_opened == from_memory, "C16:backing-dependent-bytes", "the same logical archive serialises differently with every tile in the (giant) backing archive ({} bytes) and with every tile in memory ({} bytes)", as_opened.len(), from_memory.len());
            }
            other => panic!("sparse-giant: no oracle for {other}"),
        }
        ctx.absorb(&handle);
        Ok(())
    }
    fn shrink(&self, case: &Value) -> Vec<Value> {
        let c: GiantCase = from_value(case);
        let mut out = Vec::new();
        for n in [2u32, c.n / 2, c.n.saturating_sub(1)] {
            if n >= 2 && n < c.n {
                out.push(to_value(&GiantCase { n, ..c.clone() }));
            }
        }
        if c.edits > 0 {
            out.push(to_value(&GiantCase { edits: c.edits / 2, ..c.clone() }));
            out.push(to_value(&GiantCase { edits: c.edits - 1, ..c.clone() }));
        }
        if c.data_at > 0 {
            out.push(to_value(&GiantCase { data_at: 0, ..c.clone() }));
        }
        if c.face == Face::Async {
            out.push(to_value(&GiantCase { face: Face::Sync, ..c.clone() }));
        }
        for p in shrink_policy(&c.r) {
            out.push(to_value(&GiantCase { r: p, ..c.clone() }));
        }
        out
    }
}
