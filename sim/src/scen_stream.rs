//! Calls on streams, parameterised by face and schedule policy. Serves
//!  * C13: the same call under many fragmentation / Pending schedules == the call on a plain stream
//!  * C12: the sync face == the async face on the same artefact

use std::io;

use pmtiles2::{Directory, Entry, Header};
use serde::{Deserialize, Serialize};
use serde_json::Value;

use crate::case::{draw_archive, draw_size, Archive, Bnd, Face, Model, RangeSpec, Sched, SizeClass};
use crate::disk::{Fault, Pend, Policy, SimDisk, Xfer};
use crate::rng::{hash_bytes, hash_str, Rng};
use crate::scen::{case_sig, from_value, shrink_archive, shrink_policy, to_value, Ctx, Scenario, Tier};
use crate::scen_foreign::{draw_foreign, ImageSrc};
use crate::scen_life::draw_ic;
use crate::spec::{self, SpecEntry, SpecHeader};
use crate::sut::{self, Pm, Violation, V};
use crate::{ensure, vio};

// ---------------------------------------------------------------------------------------------
// observable summary of an opened archive

#[derive(Clone, Debug, PartialEq)]
pub struct Obs {
    pub ids: Vec<u64>,
    pub tiles: Vec<(u64, u32, u64)>,
    pub meta: String,
    pub settings: sut::ObsSettings,
}

pub fn observe(pm: &mut Pm, face: Face, max_tiles: usize) -> V<Result<Obs, String>> {
    let ids = sut::ids_sorted(pm);
    let step = (ids.len() / max_tiles.max(1)).max(1);
    let mut tiles = Vec::new();
    for id in ids.iter().step_by(step) {
        match sut::get(pm, *id, face)? {
            Ok(Some(b)) => tiles.push((*id, b.len() as u32, hash_bytes(0, &b))),
            Ok(None) => tiles.push((*id, 0, 0)),
            Err(e) => return Ok(Err(format!("tile {id}: {:?}", e.kind()))),
        }
    }
    Ok(Ok(Obs { ids, tiles, meta: serde_json::to_string(&pm.meta_data).unwrap_or_default(), settings: sut::observe_settings(pm) }))
}

// ---------------------------------------------------------------------------------------------
// calls

#[derive(Clone, Debug, Serialize, Deserialize)]
pub enum Call {
    Open { src: ImageSrc, range: RangeSpec },
    Write { a: Archive, scramble: u64 },
    HeaderRead { h: SpecHeader },
    HeaderWrite { h: SpecHeader },
    DirRead { entries: Vec<SpecEntry>, ic: u8 },
    DirWrite { entries: Vec<SpecEntry>, ic: u8 },
    /// a directory write of `n` generated entries (consecutive ids, one length, contiguous
    /// offsets; a few irregular ones): keeps cases with millions of entries small
    DirWriteGen { n: u32, seed: u64, ic: u8 },
    ReadDirs { src: ImageSrc, range: RangeSpec },
    WriteDirs { n: u32, seed: u64, ic: u8, start: Option<u32>, pos: u32 },
    /// open fault-free, then look one tile up (fault indices are relative to the lookup)
    Lookup { src: ImageSrc, nth: u32 },
    /// open fault-free, then write the opened archive out again; the fault hits the output
    /// stream or (on_reader) the backing reader
    Rewrite { src: ImageSrc, on_reader: bool },
}

#[derive(Clone, Debug, PartialEq)]
pub enum Out {
    Obs(Obs),
    /// bytes on the stream (+ auxiliary bytes returned by the call)
    Bytes(Vec<u8>, Vec<u8>),
    Text(String),
    Failed(String),
}

impl Out {
    fn brief(&self) -> String {
        match self {
            Out::Obs(o) => format!("archive with {} ids, meta {} bytes", o.ids.len(), o.meta.len()),
            Out::Bytes(a, b) => format!("{} stream bytes (hash {:x}) + {} returned bytes (hash {:x})", a.len(), hash_bytes(0, a), b.len(), hash_bytes(0, b)),
            Out::Text(t) => crate::scen_life::clip(t),
            Out::Failed(e) => format!("error: {e}"),
        }
    }
}

/// Line-wise agreement for sequence outcomes: a line reporting an error is always acceptable
/// under a fault, every other line must equal the fault-free line.
pub fn lines_agree(got: &str, reference: &str) -> bool {
    let (g, r): (Vec<&str>, Vec<&str>) = (got.lines().collect(), reference.lines().collect());
    g.len() == r.len() && g.iter().zip(&r).all(|(a, b)| a.contains(": ERR ") || a == b)
}

pub fn header_from_spec(h: &SpecHeader) -> Header {
    let mut x = Header::default();
    x.spec_version = 3;
    x.root_directory_offset = h.root_offset;
    x.root_directory_length = h.root_length;
    x.json_metadata_offset = h.meta_offset;
    x.json_metadata_length = h.meta_length;
    x.leaf_directories_offset = h.leaf_offset;
    x.leaf_directories_length = h.leaf_length;
    x.tile_data_offset = h.data_offset;
    x.tile_data_length = h.data_length;
    x.num_addressed_tiles = h.n_addressed;
    x.num_tile_entries = h.n_entries;
    x.num_tile_content = h.n_contents;
    x.clustered = h.clustered != 0;
    x.internal_compression = sut::comp(h.ic);
    x.tile_compression = sut::comp(h.tc);
    x.tile_type = sut::ttype(h.tt);
    x.min_zoom = h.min_zoom;
    x.max_zoom = h.max_zoom;
    x.center_zoom = h.center_zoom;
    x.min_pos.longitude = f64::from(h.min_lon) / 1e7;
    x.min_pos.latitude = f64::from(h.min_lat) / 1e7;
    x.max_pos.longitude = f64::from(h.max_lon) / 1e7;
    x.max_pos.latitude = f64::from(h.max_lat) / 1e7;
    x.center_pos.longitude = f64::from(h.center_lon) / 1e7;
    x.center_pos.latitude = f64::from(h.center_lat) / 1e7;
    x
}

pub fn entries_to_crate(es: &[SpecEntry]) -> Vec<Entry> {
    es.iter().map(|e| Entry { tile_id: e.tile_id, offset: e.offset, length: e.length, run_length: e.run_length }).collect()
}

pub fn draw_spec_header(rng: &mut Rng) -> SpecHeader {
    let mut u = |rng: &mut Rng| match rng.below(6) {
        0 => 0,
        1 => 1,
        2 => 1 << 32,
        3 => 1 << 63,
        4 => u64::MAX,
        _ => rng.next_u64() >> rng.below(64),
    };
    let mut c = |rng: &mut Rng| match rng.below(6) {
        0 => 0,
        1 => i32::MAX,
        2 => i32::MIN,
        3 => *rng.pick(&[21, -21, 19, 5, -5, 25, 15, -15, 999_999_999]),
        _ => rng.next_u64() as i32,
    };
    SpecHeader {
        root_offset: u(rng),
        root_length: u(rng),
        meta_offset: u(rng),
        meta_length: u(rng),
        leaf_offset: u(rng),
        leaf_length: u(rng),
        data_offset: u(rng),
        data_length: u(rng),
        n_addressed: u(rng),
        n_entries: u(rng),
        n_contents: u(rng),
        clustered: rng.below(2) as u8,
        ic: rng.below(5) as u8,
        tc: rng.below(5) as u8,
        tt: rng.below(6) as u8,
        min_zoom: rng.next_u64() as u8,
        max_zoom: rng.next_u64() as u8,
        min_lon: c(rng),
        min_lat: c(rng),
        max_lon: c(rng),
        max_lat: c(rng),
        center_zoom: rng.next_u64() as u8,
        center_lon: c(rng),
        center_lat: c(rng),
    }
}

/// Valid directory entry list (ascending, non-overlapping, lengths >= 1), possibly with pointers.
pub fn draw_entries(rng: &mut Rng, n: usize, high_entropy: bool) -> Vec<SpecEntry> {
    let mut out = Vec::with_capacity(n);
    let mut id = rng.below(1000);
    let mut off = 0u64;
    for _ in 0..n {
        let run: u32 = if high_entropy {
            1
        } else {
            match rng.below(10) {
                0 => 0,
                1 => 2 + rng.below(100) as u32,
                _ => 1,
            }
        };
        let len = if high_entropy { 1 + rng.below(1 << 20) as u32 } else { 1 + rng.log_range(1, 1 << 20) as u32 };
        let offset = match rng.below(if high_entropy { 2 } else { 6 }) {
            0 => off,
            1 => rng.below(1 << 40),
            _ => off,
        };
        out.push(SpecEntry { tile_id: id, offset, length: len, run_length: run });
        off = offset + u64::from(len);
        id += u64::from(run.max(1)) + if high_entropy { rng.below(1 << 24) } else { rng.log_range(1, 1 << 16) - 1 };
    }
    out
}

/// `n` mostly regular entries (consecutive ids, constant length, contiguous offsets) with an
/// irregular one (id gap, other length, explicit offset) every few thousand.
pub fn gen_regular_entries(n: u32, seed: u64) -> Vec<SpecEntry> {
    let mut r = Rng::new(seed);
    let len = 1 + r.below(5000) as u32;
    let mut id = r.below(1000);
    let mut off = 0u64;
    let mut out = Vec::with_capacity(n as usize);
    let mut next_odd = r.below(4000);
    for i in 0..u64::from(n) {
        let mut l = len;
        if i == next_odd {
            id += r.below(50);
            l = 1 + r.below(100_000) as u32;
            if r.chance(30) {
                off += r.below(1 << 30);
            }
            next_odd = i + 1 + r.below(8000);
        }
        out.push(SpecEntry { tile_id: id, offset: off, length: l, run_length: 1 });
        id += 1;
        off += u64::from(l);
    }
    out
}

fn io_text<T: std::fmt::Debug>(r: io::Result<T>) -> Out {
    match r {
        Ok(v) => Out::Text(format!("{v:?}")),
        Err(e) => Out::Failed(format!("{:?}", e.kind())),
    }
}

/// Materialised inputs of a call (built once, reused for every schedule / fault point).
pub struct Prepared {
    pub img: Option<crate::scen_foreign::Img>,
}

pub fn prepare(call: &Call, ctx: &mut Ctx, prop: &str) -> V<Prepared> {
    Ok(Prepared {
        img: match call {
            Call::Open { src, .. } | Call::ReadDirs { src, .. } | Call::Lookup { src, .. } | Call::Rewrite { src, .. } => Some(src.materialise(ctx, prop)?),
            _ => None,
        },
    })
}

pub fn perform(call: &Call, face: Face, pol: &Policy, ctx: &mut Ctx, prop: &str) -> V<Out> {
    let p = prepare(call, ctx, prop)?;
    Ok(perform_p(call, &p, face, pol, Fault::None, ctx)?.0)
}

fn shift(f: Fault, by: u64) -> Fault {
    match f {
        Fault::None => Fault::None,
        Fault::FailStop { at, kind } => Fault::FailStop { at: at + by, kind },
        Fault::WritesFail { at } => Fault::WritesFail { at: at + by },
        Fault::Interrupted { at, n } => Fault::Interrupted { at: at + by, n },
        Fault::Transient { at, n } => Fault::Transient { at: at + by, n },
        Fault::Stall { at } => Fault::Stall { at: at + by },
    }
}

/// Executes the call with `fault` armed on the stream under test. Returns the outcome and the
/// number of stream operations the call issued on that stream (the fault-index space).
pub fn perform_p(call: &Call, prep: &Prepared, face: Face, pol: &Policy, fault: Fault, ctx: &mut Ctx) -> V<(Out, u64)> {
    let out = perform_inner(call, prep, face, pol, fault, ctx)?;
    Ok(out)
}

fn perform_inner(call: &Call, prep: &Prepared, face: Face, pol: &Policy, fault: Fault, ctx: &mut Ctx) -> V<(Out, u64)> {
    match call {
        Call::Lookup { nth, .. } => {
            let img = prep.img.as_ref().expect("prepared");
            let disk = SimDisk::new(img.image.clone(), pol);
            let h = disk.clone();
            let mut pm = match sut::open(disk, face)? {
                Ok(pm) => pm,
                Err(e) => return Ok((Out::Failed(format!("open: {:?}", e.kind())), 0)),
            };
            let ids: Vec<u64> = img.expected.keys().copied().collect();
            if ids.is_empty() {
                return Ok((Out::Text("no tiles".into()), 0));
            }
            // a short sequence of lookups (a, b, b again, a again): the fault window is relative to
            // the start of the sequence; each lookup is judged on its own (see `lines_agree`)
            let a = ids[*nth as usize % ids.len()];
            let b = ids[(*nth as usize + 1) % ids.len()];
            let n0 = h.nops();
            h.set_fault(shift(fault, n0));
            let mut lines = Vec::new();
            for id in [a, b, b, a] {
                let r = sut::get(&mut pm, id, face)?;
                lines.push(match r {
                    Ok(Some(b)) => format!("tile {id}: {} bytes hash {:x}", b.len(), hash_bytes(0, &b)),
                    Ok(None) => format!("tile {id}: none"),
                    Err(e) => format!("tile {id}: ERR {:?}", e.kind()),
                });
            }
            let n = h.nops() - n0;
            ctx.absorb(&h);
            Ok((Out::Text(lines.join("\n")), n))
        }
        Call::Rewrite { on_reader, .. } => {
            let img = prep.img.as_ref().expect("prepared");
            let rd = SimDisk::new(img.image.clone(), pol);
            let rh = rd.clone();
            let pm = match sut::open(rd, face)? {
                Ok(pm) => pm,
                Err(e) => return Ok((Out::Failed(format!("open: {:?}", e.kind())), 0)),
            };
            let n0 = rh.nops();
            let mut out = SimDisk::new(Vec::new(), pol);
            if *on_reader {
                rh.set_fault(shift(fault, n0));
            } else {
                out.set_fault(fault);
            }
            pmtiles2::verif::set_scramble_seed(Some(pol.seed));
            let r = sut::save(pm, &mut out, face);
            pmtiles2::verif::set_scramble_seed(None);
            let n = if *on_reader { rh.nops() - n0 } else { out.nops() };
            ctx.absorb(&out);
            ctx.absorb(&rh);
            Ok((
                match r? {
                    Ok(()) => Out::Bytes(out.image(), out.pos().to_le_bytes().to_vec()),
                    Err(e) => Out::Failed(format!("{:?}", e.kind())),
                },
                n,
            ))
        }
        Call::Open { range, .. } => {
            let img = prep.img.as_ref().expect("prepared");
            let disk = SimDisk::new(img.image.clone(), pol).fault(fault);
            let h = disk.clone();
            let r = if *range == RangeSpec::ALL { sut::open(disk, face)? } else { sut::open_partial(disk, face, *range)? };
            let n = h.nops();
            // faults are scoped to the open call; the observation that follows is fault-free
            h.set_fault(Fault::None);
            let out = match r {
                Ok(mut pm) => match observe(&mut pm, face, 400)? {
                    Ok(o) => Out::Obs(o),
                    Err(e) => Out::Failed(e),
                },
                Err(e) => Out::Failed(format!("{:?}", e.kind())),
            };
            ctx.absorb(&h);
            Ok((out, n))
        }
        Call::Write { a, scramble } => {
            let pm = sut::build(a)?;
            pmtiles2::verif::set_scramble_seed(Some(*scramble));
            let mut out = SimDisk::new(Vec::new(), pol).fault(fault);
            let r = sut::save(pm, &mut out, face);
            pmtiles2::verif::set_scramble_seed(None);
            ctx.absorb(&out);
            Ok((
                match r? {
                    Ok(()) => Out::Bytes(out.image(), out.pos().to_le_bytes().to_vec()),
                    Err(e) => Out::Failed(format!("{:?}", e.kind())),
                },
                out.nops(),
            ))
        }
        Call::HeaderRead { h } => {
            let mut img = spec::encode_header(h).to_vec();
            img.extend_from_slice(b"trailing bytes that must not be consumed");
            let mut disk = SimDisk::new(img, pol).fault(fault);
            let r = match face {
                Face::Sync => sut::guard("Header::from_reader", || Header::from_reader(&mut disk))?,
                Face::Async => sut::guard_async("Header::from_async_reader", Header::from_async_reader(&mut disk))?,
            };
            ctx.absorb(&disk);
            Ok((
                match r {
                    Ok(v) => Out::Text(format!("{v:?} consumed={}", disk.pos())),
                    Err(e) => Out::Failed(format!("{:?}", e.kind())),
                },
                disk.nops(),
            ))
        }
        Call::HeaderWrite { h } => {
            let hd = header_from_spec(h);
            let mut disk = SimDisk::new(Vec::new(), pol).fault(fault);
            let r = match face {
                Face::Sync => sut::guard("Header::to_writer", || hd.to_writer(&mut disk))?,
                Face::Async => sut::guard_async("Header::to_async_writer", hd.to_async_writer(&mut disk))?,
            };
            ctx.absorb(&disk);
            Ok((
                match r {
                    Ok(()) => Out::Bytes(disk.image(), Vec::new()),
                    Err(e) => Out::Failed(format!("{:?}", e.kind())),
                },
                disk.nops(),
            ))
        }
        Call::DirRead { entries, ic } => {
            let plain = spec::encode_dir(entries);
            // a zstd stream may consist of several frames (RFC 8878, 3.1): a quarter of the zstd
            // directories is stored as two frames (decided by the content, no extra draw)
            let two_frames = *ic == 4 && plain.len() >= 8 && hash_bytes(1, &plain) % 4 == 0;
            let enc = if two_frames {
                ctx.bump("directories_stored_as_two_zstd_frames", 1);
                let (a, b) = plain.split_at(plain.len() / 2);
                let mut v = spec::compress(*ic, a).expect("oracle codec");
                v.extend(spec::compress(*ic, b).expect("oracle codec"));
                v
            } else {
                spec::compress(*ic, &plain).expect("oracle codec")
            };
            let len = enc.len() as u64;
            let mut img = enc;
            img.extend_from_slice(&[0xAB; 40]);
            let mut disk = SimDisk::new(img, pol).fault(fault);
            let r = match face {
                Face::Sync => sut::guard("Directory::from_reader", || Directory::from_reader(&mut disk, len, sut::comp(*ic)))?,
                Face::Async => sut::guard_async("Directory::from_async_reader", Directory::from_async_reader(&mut disk, len, sut::comp(*ic)))?,
            };
            ctx.absorb(&disk);
            Ok((
                io_text(r.map(|d| {
                    let v: Vec<Entry> = d.into();
                    v
                })),
                disk.nops(),
            ))
        }
        Call::DirWrite { .. } | Call::DirWriteGen { .. } => {
            let generated;
            let (entries, ic) = match call {
                Call::DirWrite { entries, ic } => (entries, ic),
                Call::DirWriteGen { n, seed, ic } => {
                    generated = gen_regular_entries(*n, *seed);
                    (&generated, ic)
                }
                _ => unreachable!(),
            };
            let d: Directory = entries_to_crate(entries).into();
            let mut disk = SimDisk::new(Vec::new(), pol).fault(fault);
            let r = match face {
                Face::Sync => sut::guard("Directory::to_writer", || d.to_writer(&mut disk, sut::comp(*ic)))?,
                Face::Async => sut::guard_async("Directory::to_async_writer", d.to_async_writer(&mut disk, sut::comp(*ic)))?,
            };
            ctx.absorb(&disk);
            Ok((
                match r {
                    Ok(()) => Out::Bytes(disk.image(), Vec::new()),
                    Err(e) => Out::Failed(format!("{:?}", e.kind())),
                },
                disk.nops(),
            ))
        }
        Call::ReadDirs { range, .. } => {
            let img = prep.img.as_ref().expect("prepared");
            let h = &img.header;
            let mut disk = SimDisk::new(img.image.clone(), pol).fault(fault);
            let r = match face {
                Face::Sync => sut::guard("read_directories", || pmtiles2::util::read_directories(&mut disk, sut::comp(h.ic), (h.root_offset, h.root_length), h.leaf_offset, range.bounds()))?,
                Face::Async => sut::guard_async("read_directories_async", pmtiles2::util::read_directories_async(&mut disk, sut::comp(h.ic), (h.root_offset, h.root_length), h.leaf_offset, range.bounds()))?,
            };
            ctx.absorb(&disk);
            Ok((
                match r {
                    Ok(m) => {
                        let mut v: Vec<(u64, u64, u32)> = m.iter().map(|(k, ol)| (*k, ol.offset, ol.length)).collect();
                        v.sort_unstable();
                        Out::Text(format!("{} tiles, digest {:x}", v.len(), hash_str(&format!("{v:?}"))))
                    }
                    Err(e) => Out::Failed(format!("{:?}", e.kind())),
                },
                disk.nops(),
            ))
        }
        Call::WriteDirs { n, seed, ic, start, pos } => {
            let entries = draw_entries(&mut Rng::new(*seed), *n as usize, true);
            let es = entries_to_crate(&entries);
            let mut disk = SimDisk::new(vec![0x5A; *pos as usize], pol).at(u64::from(*pos)).fault(fault);
            let strat = start.map(|s| pmtiles2::util::WriteDirsOverflowStrategy::OnlyLeafPointers { start_size: Some(s as usize) });
            let r = match face {
                Face::Sync => sut::guard("write_directories", || pmtiles2::util::write_directories(&mut disk, &es, sut::comp(*ic), strat))?,
                Face::Async => sut::guard_async("write_directories_async", pmtiles2::util::write_directories_async(&mut disk, &es, sut::comp(*ic), strat))?,
            };
            ctx.absorb(&disk);
            Ok((
                match r {
                    Ok(leaves) => {
                        // only the bytes up to the final position are the root directory
                        let end = disk.pos() as usize;
                        let img = disk.image();
                        Out::Bytes(img[..end.min(img.len())].to_vec(), leaves)
                    }
                    Err(e) => Out::Failed(format!("{:?}", e.kind())),
                },
                disk.nops(),
            ))
        }
    }
}

pub fn draw_call(rng: &mut Rng, tier: Tier) -> Call {
    let range = |rng: &mut Rng| {
        if rng.chance(50) {
            RangeSpec::ALL
        } else if rng.chance(35) {
            // boundary ranges: empty, inverted, bounds at 0 and at the top
            *rng.pick(&[
                RangeSpec(Bnd::Unb, Bnd::Exc(0)),
                RangeSpec(Bnd::Inc(0), Bnd::Exc(0)),
                RangeSpec(Bnd::Unb, Bnd::Inc(0)),
                RangeSpec(Bnd::Inc(0), Bnd::Inc(0)),
                RangeSpec(Bnd::Exc(0), Bnd::Unb),
                RangeSpec(Bnd::Inc(5), Bnd::Exc(2)),
                RangeSpec(Bnd::Exc(7), Bnd::Inc(7)),
                RangeSpec(Bnd::Unb, Bnd::Exc(1)),
                RangeSpec(Bnd::Exc(u64::MAX), Bnd::Unb),
                RangeSpec(Bnd::Inc(1), Bnd::Inc(u64::MAX)),
            ])
        } else {
            let v = rng.log_range(1, 1 << 30);
            *rng.pick(&[RangeSpec(Bnd::Unb, Bnd::Exc(v)), RangeSpec(Bnd::Inc(v), Bnd::Unb), RangeSpec(Bnd::Exc(v / 3), Bnd::Inc(v)), RangeSpec(Bnd::Inc(v / 2), Bnd::Exc(v))])
        }
    };
    match rng.below(16) {
        0..=3 => Call::Open { src: ImageSrc::draw(rng, 50, 2), range: range(rng) },
        4..=7 => {
            let huge = rng.chance(if tier == Tier::Quick { 1 } else { 2 });
            let size = if huge { SizeClass::Huge } else { draw_size(rng, 0) };
            // schedule-independence of compressed output is asserted byte for byte
            let ic = draw_ic(rng, huge);
            Call::Write { a: draw_archive(rng, size, ic), scramble: rng.next_u64() }
        }
        8 => Call::HeaderRead { h: valid_header(rng) },
        9 => Call::HeaderWrite { h: valid_header(rng) },
        10 | 11 => {
            let n = *rng.pick(&[0usize, 1, 2, 3, 5, 40, 300]);
            Call::DirRead { entries: draw_entries(rng, n, false), ic: 1 + rng.below(4) as u8 }
        }
        12 | 13 => {
            let n = *rng.pick(&[0usize, 1, 2, 3, 5, 40, 300]);
            Call::DirWrite { entries: draw_entries(rng, n, false), ic: 1 + rng.below(4) as u8 }
        }
        14 => {
            let big = rng.chance(3);
            Call::ReadDirs { src: ImageSrc::Foreign(draw_foreign(rng, big)), range: range(rng) }
        }
        _ => {
            let big = rng.chance(40);
            Call::WriteDirs { n: if big { 3000 + rng.below(4000) as u32 } else { rng.below(200) as u32 }, seed: rng.next_u64(), ic: *rng.pick(&[1u8, 2, 4, 1, 2, 4, 3]), start: *rng.pick(&[None, Some(1), Some(7), Some(64), Some(4096), Some(100_000)]), pos: *rng.pick(&[0u32, 1, 127, 5000]) }
        }
    }
}

pub fn valid_header(rng: &mut Rng) -> SpecHeader {
    let mut h = draw_spec_header(rng);
    h.ic = rng.below(5) as u8;
    h
}

pub fn shrink_call_pub(call: &Call) -> Vec<Call> {
    shrink_call(call)
}

fn shrink_call(call: &Call) -> Vec<Call> {
    match call {
        Call::Open { src, range } => {
            let mut v: Vec<Call> = src.shrink().into_iter().map(|s| Call::Open { src: s, range: *range }).collect();
            if *range != RangeSpec::ALL {
                v.push(Call::Open { src: src.clone(), range: RangeSpec::ALL });
            }
            v
        }
        Call::ReadDirs { src, range } => src.shrink().into_iter().map(|s| Call::ReadDirs { src: s, range: *range }).collect(),
        Call::Lookup { src, nth } => src.shrink().into_iter().map(|s| Call::Lookup { src: s, nth: *nth }).collect(),
        Call::Rewrite { src, on_reader } => src.shrink().into_iter().map(|s| Call::Rewrite { src: s, on_reader: *on_reader }).collect(),
        Call::Write { a, scramble } => shrink_archive(a).into_iter().map(|a| Call::Write { a, scramble: *scramble }).collect(),
        Call::DirWriteGen { n, seed, ic } => {
            let mut v = Vec::new();
            if *n > 1 {
                v.push(Call::DirWriteGen { n: n / 2, seed: *seed, ic: *ic });
                v.push(Call::DirWriteGen { n: n - 1, seed: *seed, ic: *ic });
            }
            v
        }
        Call::DirRead { entries, ic } | Call::DirWrite { entries, ic } => {
            let mk = |e: Vec<SpecEntry>, ic: u8| if matches!(call, Call::DirRead { .. }) { Call::DirRead { entries: e, ic } } else { Call::DirWrite { entries: e, ic } };
            let mut v = Vec::new();
            let n = entries.len();
            if n > 1 {
                v.push(mk(entries[..n / 2].to_vec(), *ic));
                v.push(mk(entries[n / 2..].to_vec(), *ic));
            }
            if n <= 16 {
                for i in 0..n {
                    let mut e = entries.clone();
                    e.remove(i);
                    v.push(mk(e, *ic));
                }
            }
            if *ic != 1 {
                v.push(mk(entries.clone(), 1));
            }
            v
        }
        Call::WriteDirs { n, seed, ic, start, pos } => {
            let mut v = Vec::new();
            if *n > 1 {
                v.push(Call::WriteDirs { n: n / 2, seed: *seed, ic: *ic, start: *start, pos: *pos });
                v.push(Call::WriteDirs { n: n - 1, seed: *seed, ic: *ic, start: *start, pos: *pos });
            }
            if *pos != 0 {
                v.push(Call::WriteDirs { n: *n, seed: *seed, ic: *ic, start: *start, pos: 0 });
            }
            if *ic != 1 {
                v.push(Call::WriteDirs { n: *n, seed: *seed, ic: 1, start: *start, pos: *pos });
            }
            v
        }
        _ => Vec::new(),
    }
}

// ---------------------------------------------------------------------------------------------
// C13

#[derive(Clone, Debug, Serialize, Deserialize)]
pub struct FragCase {
    pub call: Call,
    pub face: Face,
    pub pols: Vec<Policy>,
}

pub struct Fragmentation;

fn draw_frag_policy(rng: &mut Rng, face: Face, small: bool) -> Policy {
    if small && rng.chance(50) {
        // an explicit composition of a small input
        let parts: Vec<u32> = (0..40).map(|_| 1 + rng.below(6) as u32).collect();
        let mut p = Policy::draw(rng, face == Face::Async);
        p.rd = Xfer::Script(parts.clone());
        p.wr = Xfer::Script(parts);
        return p;
    }
    let mut p = Policy::draw(rng, face == Face::Async);
    if rng.chance(30) {
        let k = 1 + rng.below(9) as u32;
        p.rd = Xfer::Fixed(k);
        p.wr = Xfer::Fixed(k);
    }
    if face == Face::Async && rng.chance(30) {
        p.pend = Pend { rate: 100, burst: 1 + rng.below(3) as u8, inline: *rng.pick(&[0u8, 100, 50]), ctl: true };
    }
    p
}

impl Scenario for Fragmentation {
    fn name(&self) -> &'static str {
        "fragmentation"
    }
    fn rule(&self) -> String {
        "one call (header/directory read+write, archive open full/partial + lookups, archive write, read_directories, write_directories) executed on a plain stream and under k schedule policies (fixed chunk 1..k, one byte, random, tiny/huge, explicit compositions; async: Pending never/always/bursts, inline vs deferred wake, Pending on seek/flush/close); each evaluation = one (call, schedule); distinct = distinct (call, policy) pairs; non-trivial = policy is not plain".into()
    }
    fn generate(&self, rng: &mut Rng, tier: Tier, run: u64) -> Value {
        let mut call = draw_call(rng, tier);
        if run < 6 {
            // the first runs of a batch read a foreign archive holding one tile above 1 MiB (runs
            // 0-2) or above 64 KiB (runs 3-5): opened and observed, looked up, written out again
            let spec = loop {
                let f = draw_foreign(rng, false);
                let want_mib = run < 3;
                if f.contents.iter().any(|c| if want_mib { c.len > 1 << 20 } else { c.len > 65_536 && c.len <= 1 << 20 }) && f.entries.iter().any(|e| f.contents[e.c as usize % f.contents.len()].len > 65_536) {
                    break f;
                }
            };
            // position of the first id with a large content among the archive's ids in order
            let mut nth = 0u32;
            for e in &spec.entries {
                if spec.contents[e.c as usize % spec.contents.len()].len > 65_536 {
                    break;
                }
                nth += e.run;
            }
            let src = ImageSrc::Foreign(spec);
            call = match run % 3 {
                0 => Call::Open { src, range: RangeSpec::ALL },
                1 => Call::Lookup { src, nth },
                _ => Call::Rewrite { src, on_reader: false },
            };
        }
        let giant = (6..10).contains(&run);
        if giant {
            // runs 6-9: a reader-backed tile above 16 MiB (16 MiB + 1 ... 40 MiB) in a small
            // foreign archive: looked up (sync, async), re-written, opened
            let mut f = loop {
                let f = draw_foreign(rng, false);
                if f.entries.len() >= 2 && f.entries.len() < 60 && f.contents.iter().all(|c| c.len <= 65_536) {
                    break f;
                }
            };
            let len = (1u32 << 24) + 1 + if run % 2 == 0 { rng.below(3 << 20) as u32 } else { rng.below(24 << 20) as u32 };
            f.contents.push(crate::case::Cont { k: 0, seed: rng.below(1 << 30) as u32, len });
            let slot = rng.usize_below(f.entries.len());
            f.entries[slot].run = 1;
            f.entries[slot].c = (f.contents.len() - 1) as u32;
            let nth: u32 = f.entries[..slot].iter().map(|e| e.run).sum();
            let src = ImageSrc::Foreign(f);
            call = match run {
                6 | 7 => Call::Lookup { src, nth },
                8 => Call::Rewrite { src, on_reader: false },
                _ => Call::Open { src, range: RangeSpec::ALL },
            };
        }
        let face = if giant { if run == 7 { Face::Async } else if run == 6 { Face::Sync } else { Face::draw(rng) } } else { Face::draw(rng) };
        if giant {
            // transfers of at most 1 MiB / 64 KiB + 1 / alternating tiny and complete / up to 16 MiB
            let mut pols = Vec::new();
            for (rd, wr) in [(Xfer::Random(1 << 20), Xfer::Random(1 << 20)), (Xfer::Fixed(65_537), Xfer::Fixed(1 << 20)), (Xfer::TinyHuge, Xfer::Random(3 << 20)), (Xfer::Random(1 << 24), Xfer::Fixed((1 << 24) - 1))] {
                let pend = if face == Face::Async { Pend { rate: 30, burst: 2, inline: 50, ctl: true } } else { Pend::NEVER };
                pols.push(Policy { rd, wr, pend, seed: rng.next_u64() });
            }
            return to_value(&FragCase { call, face, pols });
        }
        let small = matches!(call, Call::HeaderRead { .. } | Call::HeaderWrite { .. } | Call::DirRead { .. } | Call::DirWrite { .. });
        let heavy = matches!(&call, Call::Write { a, .. } if a.tiles.len() > 2000) || matches!(&call, Call::WriteDirs { n, .. } if *n > 1000);
        let k = if heavy { 3 } else if tier == Tier::Quick { 8 } else { 16 };
        let pols = (0..k).map(|_| draw_frag_policy(rng, face, small)).collect();
        to_value(&FragCase { call, face, pols })
    }
    fn execute(&self, case: &Value, ctx: &mut Ctx) -> V<()> {
        let c: FragCase = from_value(case);
        let reference = perform(&c.call, c.face, &Policy::plain(), &mut Ctx::default(), "C13")?;
        let base = hash_str(&serde_json::to_string(&c.call).unwrap_or_default());
        for p in &c.pols {
            ctx.evals += 1;
            let got = perform(&c.call, c.face, p, ctx, "C13")?;
            if !p.is_plain() {
                ctx.sig(base ^ hash_str(&serde_json::to_string(p).unwrap_or_default()) ^ (c.face as u64));
            }
            if got != reference {
                let kind = match (&reference, &got) {
                    (Out::Bytes(..), _) => "written-bytes-differ",
                    (_, Out::Failed(_)) => "fails-under-schedule",
                    _ => "read-result-differs",
                };
                vio!(format!("C13:{kind}:{}", call_tag(&c.call)), "{:?} face, schedule {}: result {} differs from the result on an unfragmented, always-ready stream: {}", c.face, p.tag(), got.brief(), reference.brief());
            }
        }
        // exploratory, never part of the verdict (EINTR is outside this property's schedule
        // space): one transient ErrorKind::Interrupted on the sync face
        if c.face == Face::Sync && !matches!(reference, Out::Failed(_)) {
            let prep = prepare(&c.call, &mut Ctx::default(), "C13")?;
            let mut sub = Ctx::default();
            if let Ok((o, n)) = perform_p(&c.call, &prep, Face::Sync, &Policy::plain(), Fault::None, &mut sub) {
                if n > 0 && o == reference {
                    let at = base % n;
                    if let Ok((o2, _)) = perform_p(&c.call, &prep, Face::Sync, &Policy::plain(), Fault::Interrupted { at, n: 1 }, &mut sub) {
                        ctx.bump("extra_eintr_trials", 1);
                        if o2 != reference {
                            ctx.bump(&format!("extra_eintr_not_retried_{}", call_tag(&c.call)), 1);
                            let note = "exploratory (outside the property's schedule space): a single ErrorKind::Interrupted from the stream is not always retried — some sync calls return an error or a different result (varint reads go through Read::read without an EINTR loop)".to_string();
                            if !ctx.notes.contains(&note) {
                                ctx.notes.push(note);
                            }
                        }
                    }
                }
            }
        }
        Ok(())
    }
    fn shrink(&self, case: &Value) -> Vec<Value> {
        let c: FragCase = from_value(case);
        let mut out = Vec::new();
        if c.pols.len() > 1 {
            for p in &c.pols {
                out.push(to_value(&FragCase { pols: vec![p.clone()], ..c.clone() }));
            }
        }
        for call in shrink_call(&c.call) {
            out.push(to_value(&FragCase { call, ..c.clone() }));
        }
        if c.pols.len() == 1 {
            for p in shrink_policy(&c.pols[0]) {
                if !p.is_plain() {
                    out.push(to_value(&FragCase { pols: vec![p], ..c.clone() }));
                }
            }
        }
        if c.face == Face::Async {
            out.push(to_value(&FragCase { face: Face::Sync, ..c.clone() }));
        }
        out
    }
}

pub fn call_tag(c: &Call) -> &'static str {
    match c {
        Call::Open { .. } => "open",
        Call::Write { .. } => "write",
        Call::HeaderRead { .. } => "header-read",
        Call::HeaderWrite { .. } => "header-write",
        Call::DirRead { .. } => "dir-read",
        Call::DirWrite { .. } | Call::DirWriteGen { .. } => "dir-write",
        Call::ReadDirs { .. } => "read-dirs",
        Call::WriteDirs { .. } => "write-dirs",
        Call::Lookup { .. } => "lookup",
        Call::Rewrite { .. } => "rewrite",
    }
}

// ---------------------------------------------------------------------------------------------
// C12

#[derive(Clone, Debug, Serialize, Deserialize)]
pub struct SaCase {
    pub call: Call,
    pub pol: Policy,
}

pub struct SyncAsync;

/// Logical content of a written archive as the independent reader sees it (offsets excluded).
fn logical(image: &[u8]) -> Result<String, String> {
    let v = spec::validate(image)?;
    let h = &v.header;
    let mut tiles: Vec<(u64, u64)> = Vec::new();
    for (id, (off, len)) in &v.walk.tiles {
        tiles.push((*id, hash_bytes(0, spec::tile_bytes(image, h, *off, *len)?)));
    }
    Ok(format!(
        "tiles={:x}/{} meta={} hdr={:?}",
        hash_str(&format!("{tiles:?}")),
        tiles.len(),
        v.meta,
        ((h.n_addressed, h.n_entries, h.n_contents, h.clustered, h.ic, h.tc, h.tt), (h.min_zoom, h.max_zoom, h.center_zoom, h.min_lon, h.min_lat, h.max_lon, h.max_lat), (h.center_lon, h.center_lat, h.data_length))
    ))
}

fn codec_of(call: &Call) -> u8 {
    match call {
        Call::Write { a, .. } => a.set.ic,
        Call::DirWrite { ic, .. } | Call::DirWriteGen { ic, .. } | Call::WriteDirs { ic, .. } => *ic,
        _ => 1,
    }
}

impl Scenario for SyncAsync {
    fn name(&self) -> &'static str {
        "sync-async"
    }
    fn rule(&self) -> String {
        "one artefact (archive image library-written or foreign, logical archive to write, header, directory, entry list) pushed through the sync face and the async face (async under the simulator's executor with Pending); readers compared value for value, writers byte for byte where no codec is involved and via the independent reader + both crate readers otherwise; distinct = distinct serialized cases; non-trivial = artefact non-empty".into()
    }
    fn generate(&self, rng: &mut Rng, tier: Tier, run: u64) -> Value {
        if run < 4 {
            // once per batch, direction and codec family: metadata of several to tens of MiB
            // (repetitive text: a few KiB once compressed, i.e. compression ratios far above
            // 1000:1), moved in large pieces so the case stays cheap
            let (write, ic, mib) = match run {
                0 => (true, 2u8, 17 + rng.below(20) as u32),
                1 => (false, 4, 17 + rng.below(20) as u32),
                2 => (false, 3, 2 + rng.below(3) as u32),
                _ => (true, *rng.pick(&[4u8, 1]), 17 + rng.below(20) as u32),
            };
            let mut a = draw_archive(rng, SizeClass::Tens, ic);
            a.meta = crate::case::Meta { kind: 6, seed: rng.next_u64(), n: mib };
            let pol = Policy { rd: Xfer::Random(200_000), wr: Xfer::Random(200_000), pend: crate::disk::Pend { rate: 20, burst: 2, inline: 50, ctl: true }, seed: rng.next_u64() };
            let call = if write { Call::Write { a, scramble: 1 } } else { Call::Open { src: ImageSrc::Written { a, face: Face::Sync, w: Policy::plain(), scramble: 1 }, range: RangeSpec::ALL } };
            return to_value(&SaCase { call, pol });
        }
        if run == 4 && tier == Tier::Thorough {
            // thorough only: an archive whose decompressed metadata is larger than 2^30 bytes
            // (zstd; a few hundred KB once compressed), opened through both faces
            let mut a = draw_archive(rng, SizeClass::Tens, 4);
            a.meta = crate::case::Meta { kind: 6, seed: rng.next_u64(), n: 1025 };
            let pol = Policy { rd: Xfer::Random(200_000), wr: Xfer::Random(200_000), pend: crate::disk::Pend { rate: 20, burst: 2, inline: 50, ctl: true }, seed: rng.next_u64() };
            return to_value(&SaCase { call: Call::Open { src: ImageSrc::Written { a, face: Face::Sync, w: Policy::plain(), scramble: 1 }, range: RangeSpec::ALL }, pol });
        }
        let call = draw_call(rng, tier);
        to_value(&SaCase { call, pol: if rng.chance(85) { Policy::draw(rng, true) } else { Policy::plain() } })
    }
    fn execute(&self, case: &Value, ctx: &mut Ctx) -> V<()> {
        let c: SaCase = from_value(case);
        ctx.evals += 1;
        ctx.sig(case_sig(case));
        let s = perform(&c.call, Face::Sync, &c.pol, ctx, "C12")?;
        let a = perform(&c.call, Face::Async, &c.pol, ctx, "C12")?;
        let tag = call_tag(&c.call);
        // the property quantifies over valid inputs: only compare where the sync face succeeds
        if matches!(s, Out::Failed(_)) && !matches!(c.call, Call::Write { .. } | Call::DirWrite { .. } | Call::HeaderWrite { .. } | Call::WriteDirs { .. }) {
            ctx.bump("skipped_sync_reader_failed", 1);
            return Ok(());
        }
        match (&s, &a) {
            (Out::Bytes(sb, sx), Out::Bytes(ab, ax)) => {
                let ic = codec_of(&c.call);
                if ic == 1 {
                    ensure!(sb == ab && sx == ax, format!("C12:bytes-differ:{tag}"), "no codec involved, yet the async writer's output ({}) differs from the sync writer's ({})", a.brief(), s.brief());
                } else {
                    ctx.bump("writer_pairs_compared_logically", 1);
                }
                match &c.call {
                    Call::Write { a: arch, .. } => {
                        let ls = logical(sb).map_err(|e| Violation::new("C12:sync-output-invalid", e))?;
                        let la = logical(ab).map_err(|e| Violation::new("C12:async-output-invalid", format!("the async writer's archive is rejected by the independent reader: {e}")))?;
                        ensure!(ls == la, "C12:logical-content-differs:write", "async-written archive has different logical content: {la} vs {ls}");
                        // read back by either kind of reader == model
                        let model = Model::of(arch);
                        for (wname, bytes) in [("sync", sb), ("async", ab)] {
                            for rface in [Face::Sync, Face::Async] {
                                let disk = SimDisk::new(bytes.clone(), &c.pol);
                                let mut pm = match sut::open(disk, rface)? {
                                    Ok(p) => p,
                                    Err(e) => vio!("C12:readback-open-failed", "{wname}-written archive does not open with the {rface:?} reader: {e}"),
                                };
                                let ids = sut::ids_sorted(&pm);
                                ensure!(ids.iter().copied().eq(model.tiles.keys().copied()), "C12:readback-ids", "{wname}-written archive read by the {rface:?} reader lists {} ids, {} were added", ids.len(), model.tiles.len());
                                let step = (ids.len() / 200).max(1);
                                for id in ids.iter().step_by(step) {
                                    let got = sut::get(&mut pm, *id, rface)?;
                                    ensure!(matches!(&got, Ok(Some(b)) if Some(b) == model.tiles.get(id)), "C12:readback-bytes", "{wname}-written archive read by the {rface:?} reader returns wrong bytes for tile {id}");
                                }
                                ensure!(pm.meta_data == arch.meta.map(), "C12:readback-metadata", "{wname}-written archive read by the {rface:?} reader has different metadata");
                            }
                        }
                    }
                    Call::DirWrite { entries, ic } => {
                        for (n, b) in [("sync", sb), ("async", ab)] {
                            let plain = spec::decompress(*ic, b).map_err(|e| Violation::new(format!("C12:{n}-dir-output-undecodable"), e))?;
                            let dec = spec::decode_dir(&plain).map_err(|e| Violation::new(format!("C12:{n}-dir-output-undecodable"), e))?;
                            ensure!(&dec == entries, format!("C12:{n}-dir-output-wrong"), "{n} directory writer output decodes to different entries");
                        }
                    }
                    Call::WriteDirs { n, seed, ic, .. } => {
                        let want = draw_entries(&mut Rng::new(*seed), *n as usize, true);
                        for (name, root, leaves) in [("sync", sb, sx), ("async", ab, ax)] {
                            let got = resolve_dirs(root, leaves, *ic, c_pos(&c.call)).map_err(|e| Violation::new(format!("C12:{name}-write-directories-undecodable"), e))?;
                            ensure!(got == want, format!("C12:{name}-write-directories-wrong"), "{name} write_directories output resolves to {} entries, expected {}", got.len(), want.len());
                        }
                    }
                    _ => {}
                }
            }
            (Out::Failed(es), Out::Failed(ea)) => {
                // both refuse (e.g. Unknown compression): equivalent
                let _ = (es, ea);
                ctx.bump("both_faces_failed", 1);
            }
            _ => {
                ensure!(s == a, format!("C12:results-differ:{tag}"), "sync face gives {}; async face gives {}", s.brief(), a.brief());
            }
        }
        // lookups after a disturbed lookup (transient stream failure; async: cancelled request)
        // return on either face what the undisturbed sync reader returns
        if let Call::Open { src, range } | Call::ReadDirs { src, range } = &c.call {
            if let (Out::Obs(_) | Out::Text(_), true) = (&s, matches!(c.call, Call::Open { .. })) {
                let img = src.materialise(ctx, "C12")?;
                let ids: Vec<u64> = img.expected.keys().copied().filter(|i| range.contains(*i)).collect();
                for face in [Face::Sync, Face::Async] {
                    let disk = SimDisk::new(img.image.clone(), &c.pol);
                    let handle = disk.clone();
                    let opened = if *range == RangeSpec::ALL { sut::open(disk, face)? } else { sut::open_partial(disk, face, *range)? };
                    let Ok(mut pm) = opened else { continue };
                    let mut rng = Rng::new(c.pol.seed ^ 0xC12);
                    crate::scen_foreign::disturbed_lookups("C12", &mut pm, &handle, img.header.data_offset, &img.addr, &img.expected, &ids, face, &mut rng, 2, false, ctx)?;
                }
            }
        }
        Ok(())
    }
    fn shrink(&self, case: &Value) -> Vec<Value> {
        let c: SaCase = from_value(case);
        let mut out: Vec<Value> = shrink_call(&c.call).into_iter().map(|call| to_value(&SaCase { call, pol: c.pol.clone() })).collect();
        for p in shrink_policy(&c.pol) {
            out.push(to_value(&SaCase { pol: p, ..c.clone() }));
        }
        out
    }
}

fn c_pos(c: &Call) -> usize {
    match c {
        Call::WriteDirs { pos, .. } => *pos as usize,
        _ => 0,
    }
}

/// Resolves root (+ leaves) written by write_directories back to the flat entry list.
pub fn resolve_dirs(stream: &[u8], leaves: &[u8], ic: u8, pos: usize) -> Result<Vec<SpecEntry>, String> {
    let root_raw = stream.get(pos..).ok_or("root missing")?;
    let root = spec::decode_dir(&spec::decompress(ic, root_raw)?)?;
    if leaves.is_empty() {
        return Ok(root);
    }
    let mut out = Vec::new();
    for p in &root {
        if p.run_length != 0 {
            return Err("root contains a tile entry next to leaf pointers".into());
        }
        let raw = leaves.get(p.offset as usize..p.offset as usize + p.length as usize).ok_or("leaf pointer outside the returned leaf bytes")?;
        out.extend(spec::decode_dir(&spec::decompress(ic, raw)?)?);
    }
    Ok(out)
}

#[allow(dead_code)]
pub fn sched_plain() -> Sched {
    Sched::plain()
}
