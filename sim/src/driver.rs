//! Search driver: shards seeded runs over worker threads, merges results in run-index order,
//! minimises a failure, writes the replay file, re-executes it in a fresh process, writes evidence.

use std::collections::{BTreeMap, HashSet};
use std::panic::{catch_unwind, AssertUnwindSafe};
use std::path::{Path, PathBuf};
use std::sync::atomic::{AtomicBool, AtomicU64, Ordering};
use std::sync::{Arc, Mutex};
use std::time::Instant;

use serde_json::{json, Value};

use crate::rng::{hash_str, mix, Rng};
use crate::scen::{Ctx, Scenario, Tier};
use crate::sut::{self, Violation};

pub const DEFAULT_SEED: u64 = 20_260_926;

pub fn verif_root() -> PathBuf {
    if let Ok(p) = std::env::var("VERIF_ROOT") {
        return PathBuf::from(p);
    }
    Path::new(env!("CARGO_MANIFEST_DIR")).parent().map(Path::to_path_buf).unwrap_or_else(|| PathBuf::from("/verif"))
}

pub struct Batch {
    pub scen: Arc<dyn Scenario>,
    pub runs: u64,
}

pub struct Plan {
    pub prop: &'static str,
    pub level: &'static str,
    pub batches: Vec<Batch>,
    pub assumptions: Vec<String>,
    pub real: Vec<&'static str>,
    pub stubs: Vec<&'static str>,
}

pub fn run_seed(seed: u64, prop: &str, scen: &str, idx: u64) -> u64 {
    mix(mix(seed, hash_str(&format!("{prop}/{scen}"))), idx)
}

enum Outcome {
    Ok,
    Violation(Violation),
    HarnessPanic(String),
}

struct RunResult {
    idx: u64,
    ctx: Ctx,
    outcome: Outcome,
    case: Option<Value>,
}

static IN_CHILD: AtomicBool = AtomicBool::new(false);
static CURRENT_PROP: Mutex<String> = Mutex::new(String::new());

pub fn set_in_child() {
    IN_CHILD.store(true, Ordering::SeqCst);
}
pub fn set_current_prop(p: &str) {
    *CURRENT_PROP.lock().unwrap() = p.to_string();
}
fn current_prop() -> String {
    CURRENT_PROP.lock().unwrap().clone()
}

/// How a child process died, as a stable class fragment.
pub fn death_kind(status: &std::process::ExitStatus, stderr: &str) -> String {
    use std::os::unix::process::ExitStatusExt;
    let what = if stderr.contains("has overflowed its stack") {
        "stack-overflow".to_string()
    } else if stderr.contains("refused absurd allocation") || stderr.contains("memory allocation of") {
        "absurd-allocation-abort".to_string()
    } else if stderr.contains("panic in a function that cannot unwind") || stderr.contains("panicked") {
        "abort-after-panic".to_string()
    } else {
        "killed".to_string()
    };
    match status.signal() {
        Some(sig) => format!("{what}:signal-{sig}"),
        None => format!("{what}:exit-{}", status.code().unwrap_or(-1)),
    }
}

fn tail(s: &str, n: usize) -> String {
    let key: Vec<&str> = s.lines().filter(|l| l.contains("panicked") || l.contains("overflowed its stack") || l.contains("memory allocation of") || l.contains("refused absurd")).collect();
    if !key.is_empty() {
        return key[key.len().saturating_sub(n)..].join(" | ");
    }
    let lines: Vec<&str> = s.lines().filter(|l| !l.trim().is_empty()).collect();
    lines[lines.len().saturating_sub(n)..].join(" | ")
}

/// Runs one case in a child process (`pmtsim exec-case`); a dead child becomes a violation.
fn execute_case_in_child(scen: &dyn Scenario, case: &Value, trace: bool) -> (Ctx, Result<(), Violation>, Option<String>) {
    let mut ctx = Ctx::default();
    let dir = verif_root().join("replays").join("tmp");
    let _ = std::fs::create_dir_all(&dir);
    static SERIAL: AtomicU64 = AtomicU64::new(0);
    let path = dir.join(format!("case-{}-{}.json", std::process::id(), SERIAL.fetch_add(1, Ordering::SeqCst)));
    if let Err(e) = std::fs::write(&path, case.to_string()) {
        return (ctx, Ok(()), Some(format!("cannot write {}: {e}", path.display())));
    }
    let exe = match std::env::current_exe() {
        Ok(e) => e,
        Err(e) => return (ctx, Ok(()), Some(e.to_string())),
    };
    let mut cmd = std::process::Command::new(exe);
    cmd.arg("exec-case").arg(current_prop()).arg(scen.name()).arg(&path).env("RUST_BACKTRACE", "0");
    if trace {
        cmd.arg("trace");
    }
    let out = run_with_timeout(cmd, 300);
    let _ = std::fs::remove_file(&path);
    let (status, stdout, stderr) = match out {
        Ok(o) => o,
        Err(e) => return (ctx, Err(Violation::new("crash:hang", format!("child did not finish: {e}"))), None),
    };
    if let Some(line) = stdout.lines().find(|l| l.starts_with("RESULT ")) {
        if let Ok(v) = serde_json::from_str::<Value>(&line[7..]) {
            if let Some(t) = v.get("trace").and_then(Value::as_array) {
                ctx.trace = Some(t.iter().filter_map(|x| x.as_str().map(str::to_string)).collect());
            }
            return match v["o"].as_str() {
                Some("ok") => (ctx, Ok(()), None),
                Some("vio") => (ctx, Err(Violation::new(v["class"].as_str().unwrap_or(""), v["detail"].as_str().unwrap_or(""))), None),
                _ => (ctx, Ok(()), Some(v["detail"].as_str().unwrap_or("harness error in child").to_string())),
            };
        }
    }
    let kind = death_kind(&status, &stderr);
    (ctx, Err(Violation::new(format!("crash:{kind}"), format!("the process died while executing the case ({kind}); stderr: {}", tail(&stderr, 3)))), None)
}

fn run_with_timeout(mut cmd: std::process::Command, secs: u64) -> Result<(std::process::ExitStatus, String, String), String> {
    use std::io::Read;
    use std::process::Stdio;
    let mut child = cmd.stdin(Stdio::null()).stdout(Stdio::piped()).stderr(Stdio::piped()).spawn().map_err(|e| e.to_string())?;
    let mut so = child.stdout.take().unwrap();
    let mut se = child.stderr.take().unwrap();
    let t1 = std::thread::spawn(move || {
        let mut s = String::new();
        let _ = so.read_to_string(&mut s);
        s
    });
    let t2 = std::thread::spawn(move || {
        let mut b = Vec::new();
        let _ = se.read_to_end(&mut b);
        String::from_utf8_lossy(&b[b.len().saturating_sub(8000)..]).to_string()
    });
    let t0 = Instant::now();
    loop {
        match child.try_wait() {
            Ok(Some(st)) => {
                return Ok((st, t1.join().unwrap_or_default(), t2.join().unwrap_or_default()));
            }
            Ok(None) => {
                if t0.elapsed().as_secs() > secs {
                    let _ = child.kill();
                    let _ = child.wait();
                    return Err(format!("no result after {secs}s (killed)"));
                }
                std::thread::sleep(std::time::Duration::from_millis(2));
            }
            Err(e) => return Err(e.to_string()),
        }
    }
}

/// `pmtsim exec-case <prop> <scenario> <file> [trace]`
pub fn exec_case_main(prop: &str, scen_name: &str, file: &Path, trace: bool, find: &dyn Fn(&str, &str) -> Option<Arc<dyn Scenario>>) -> i32 {
    set_in_child();
    set_current_prop(prop);
    let Some(scen) = find(prop, scen_name) else {
        println!("RESULT {}", json!({"o": "harness", "detail": "no such scenario"}));
        return 0;
    };
    let case: Value = match std::fs::read_to_string(file).map_err(|e| e.to_string()).and_then(|s| serde_json::from_str(&s).map_err(|e| e.to_string())) {
        Ok(c) => c,
        Err(e) => {
            println!("RESULT {}", json!({"o": "harness", "detail": e}));
            return 0;
        }
    };
    let (ctx, r, hp) = execute_case(scen.as_ref(), &case, trace);
    let t = ctx.trace.unwrap_or_default();
    match (r, hp) {
        (_, Some(m)) => println!("RESULT {}", json!({"o": "harness", "detail": m})),
        (Ok(()), None) => println!("RESULT {}", json!({"o": "ok", "trace": t})),
        (Err(v), None) => println!("RESULT {}", json!({"o": "vio", "class": v.class, "detail": v.detail, "trace": t})),
    }
    0
}

/// `pmtsim worker <prop> <scenario> <tier> <seed> <from> <to>`: runs a chunk of runs in-process,
/// one `B <idx>` line before and one `E <idx> <json>` line after each.
pub fn worker_main(prop: &str, scen_name: &str, tier: Tier, seed: u64, from: u64, to: u64, find: &dyn Fn(&str, &str) -> Option<Arc<dyn Scenario>>) -> i32 {
    use std::io::Write;
    set_in_child();
    set_current_prop(prop);
    let Some(scen) = find(prop, scen_name) else {
        return 2;
    };
    let stdout = std::io::stdout();
    for idx in from..to {
        {
            let mut o = stdout.lock();
            let _ = writeln!(o, "B {idx}");
            let _ = o.flush();
        }
        let rs = run_seed(seed, prop, scen.name(), idx);
        let mut rng = Rng::new(rs);
        let case = scen.generate(&mut rng, tier, idx);
        let (ctx, r, hp) = execute_case(scen.as_ref(), &case, false);
        let (o, class, detail) = match (&r, &hp) {
            (_, Some(m)) => ("harness", String::new(), m.clone()),
            (Ok(()), None) => ("ok", String::new(), String::new()),
            (Err(v), None) => ("vio", v.class.clone(), v.detail.clone()),
        };
        let line = json!({"o": o, "class": class, "detail": detail, "evals": ctx.evals, "sigs": ctx.sigs, "states": ctx.states, "scheds": ctx.scheds, "counters": ctx.counters, "digest": ctx.digest, "notes": ctx.notes});
        let mut out = stdout.lock();
        let _ = writeln!(out, "E {idx} {line}");
        let _ = out.flush();
    }
    0
}

pub fn execute_case(scen: &dyn Scenario, case: &Value, trace: bool) -> (Ctx, Result<(), Violation>, Option<String>) {
    if scen.isolated() && !IN_CHILD.load(Ordering::SeqCst) {
        return execute_case_in_child(scen, case, trace);
    }
    // every case runs on a thread of its own: whatever a call leaves behind in thread-local state
    // (a scratch buffer, a cache) cannot travel from one case to the next, so a case is a pure
    // function of its file whatever ran before it on the worker - and a replay in a fresh process
    // sees exactly what the original run saw
    // (a light case that is preceded by refused calls on its thread gets a thread of its own too:
    // what those calls may leave behind must not depend on what the worker ran before, and a
    // re-execution must meet the same leftovers)
    if scen.light() && !poisoned(scen, crate::scen::case_sig(case)) {
        return execute_case_here(scen, case, trace);
    }
    let stack = if IN_CHILD.load(Ordering::SeqCst) { 8 << 20 } else { 2 << 20 };
    std::thread::scope(|s| {
        std::thread::Builder::new()
            .stack_size(stack)
            .spawn_scoped(s, || execute_case_here(scen, case, trace))
            .expect("spawn case thread")
            .join()
            .unwrap_or_else(|p| (Ctx::default(), Ok(()), Some(format!("case thread died: {}", sut::take_panic_message(p)))))
    })
}

/// One case in eight (one in 64 for the microsecond-sized header scenarios, where the thread a
/// poisoned case needs would otherwise dominate the batch) is preceded by refused calls.
fn poisoned(scen: &dyn Scenario, sig: u64) -> bool {
    if scen.light() {
        sig % 64 == 0
    } else {
        sig % 8 == 0
    }
}

fn execute_case_here(scen: &dyn Scenario, case: &Value, trace: bool) -> (Ctx, Result<(), Violation>, Option<String>) {
    let mut ctx = Ctx::default();
    if trace {
        ctx.trace = Some(Vec::new());
    }
    // one case in eight is preceded by refused calls on the same thread (a pure function of the
    // case, so replays reproduce it): failed calls must leave no trace in later ones
    let sig = crate::scen::case_sig(case);
    if poisoned(scen, sig) {
        sut::poison_thread(sig);
        ctx.bump("fired_refused_calls_before_case", 1);
        ctx.trace(|| "preceded by refused calls on the same thread (poison)".to_string());
    }
    let r = catch_unwind(AssertUnwindSafe(|| scen.execute(case, &mut ctx)));
    match r {
        Ok(res) => (ctx, res, None),
        Err(p) => {
            let msg = sut::take_panic_message(p);
            (ctx, Ok(()), Some(msg))
        }
    }
}

const ISO_CHUNK: u64 = 500;

#[allow(clippy::too_many_arguments)]
fn run_isolated_batch(plan: &Plan, scen: &dyn Scenario, o: &CheckOpts, runs: u64, t0: Instant, known: &[KnownFinding], results: &Mutex<Vec<RunResult>>, first_bad: &AtomicU64, stop: &AtomicBool) {
    use std::io::{BufRead, BufReader, Read};
    use std::process::{Command, Stdio};
    let next_chunk = AtomicU64::new(0);
    let exe = std::env::current_exe().expect("current exe");
    std::thread::scope(|s| {
        for _ in 0..o.jobs.max(1) {
            s.spawn(|| loop {
                let from0 = next_chunk.fetch_add(ISO_CHUNK, Ordering::SeqCst);
                if from0 >= runs || from0 > first_bad.load(Ordering::SeqCst) || stop.load(Ordering::SeqCst) {
                    break;
                }
                if t0.elapsed().as_secs_f64() > o.max_s {
                    stop.store(true, Ordering::SeqCst);
                    break;
                }
                let to = (from0 + ISO_CHUNK).min(runs);
                let mut from = from0;
                while from < to {
                    let mut child = Command::new(&exe)
                        .arg("worker")
                        .arg(plan.prop)
                        .arg(scen.name())
                        .arg(if o.tier == Tier::Quick { "quick" } else { "thorough" })
                        .arg(o.seed.to_string())
                        .arg(from.to_string())
                        .arg(to.to_string())
                        .env("RUST_BACKTRACE", "0")
                        .stdin(Stdio::null())
                        .stdout(Stdio::piped())
                        .stderr(Stdio::piped())
                        .spawn()
                        .expect("spawn worker");
                    let so = child.stdout.take().unwrap();
                    let mut se = child.stderr.take().unwrap();
                    let et = std::thread::spawn(move || {
                        let mut b = Vec::new();
                        let _ = se.read_to_end(&mut b);
                        String::from_utf8_lossy(&b[b.len().saturating_sub(8000)..]).to_string()
                    });
                    let (tx, rx) = std::sync::mpsc::channel::<String>();
                    let rt = std::thread::spawn(move || {
                        for l in BufReader::new(so).lines().map_while(Result::ok) {
                            if tx.send(l).is_err() {
                                break;
                            }
                        }
                    });
                    let mut in_flight: Option<u64> = None;
                    let mut done_to = from;
                    let mut hung = false;
                    loop {
                        match rx.recv_timeout(std::time::Duration::from_secs(300)) {
                            Ok(l) => {
                                if let Some(r) = l.strip_prefix("B ") {
                                    in_flight = r.trim().parse().ok();
                                } else if let Some(r) = l.strip_prefix("E ") {
                                    let mut it = r.splitn(2, ' ');
                                    let idx: u64 = it.next().and_then(|x| x.parse().ok()).unwrap_or(u64::MAX);
                                    let v: Value = it.next().and_then(|j| serde_json::from_str(j).ok()).unwrap_or(Value::Null);
                                    let mut ctx = Ctx::default();
                                    ctx.evals = v["evals"].as_u64().unwrap_or(1);
                                    ctx.digest = v["digest"].as_u64().unwrap_or(0);
                                    ctx.sigs = v["sigs"].as_array().map(|a| a.iter().filter_map(Value::as_u64).collect()).unwrap_or_default();
                                    ctx.states = v["states"].as_array().map(|a| a.iter().filter_map(Value::as_u64).collect()).unwrap_or_default();
                                    ctx.scheds = v["scheds"].as_array().map(|a| a.iter().filter_map(Value::as_u64).collect()).unwrap_or_default();
                                    if let Some(c) = v["counters"].as_object() {
                                        for (k, n) in c {
                                            ctx.counters.insert(k.clone(), n.as_u64().unwrap_or(0));
                                        }
                                    }
                                    ctx.notes = v["notes"].as_array().map(|a| a.iter().filter_map(|x| x.as_str().map(str::to_string)).collect()).unwrap_or_default();
                                    let outcome = match v["o"].as_str() {
                                        Some("ok") => Outcome::Ok,
                                        Some("vio") => Outcome::Violation(Violation::new(v["class"].as_str().unwrap_or(""), v["detail"].as_str().unwrap_or(""))),
                                        _ => Outcome::HarnessPanic(v["detail"].as_str().unwrap_or("unparseable worker line").to_string()),
                                    };
                                    push_iso(plan, scen, o, known, results, first_bad, idx, ctx, outcome);
                                    in_flight = None;
                                    done_to = idx + 1;
                                }
                            }
                            Err(std::sync::mpsc::RecvTimeoutError::Timeout) => {
                                hung = true;
                                let _ = child.kill();
                                break;
                            }
                            Err(std::sync::mpsc::RecvTimeoutError::Disconnected) => break,
                        }
                    }
                    let status = child.wait().expect("wait worker");
                    let _ = rt.join();
                    let stderr = et.join().unwrap_or_default();
                    if done_to >= to && status.success() {
                        break;
                    }
                    // the worker died (or hung) while a case was in flight
                    let idx = in_flight.unwrap_or(done_to);
                    let kind = if hung { "hang:no-progress-300s".to_string() } else { death_kind(&status, &stderr) };
                    let v = Violation::new(format!("crash:{kind}"), format!("the process died while executing the case ({kind}); stderr: {}", tail(&stderr, 3)));
                    push_iso(plan, scen, o, known, results, first_bad, idx, Ctx::default(), Outcome::Violation(v));
                    from = idx + 1;
                }
            });
        }
    });
}

#[allow(clippy::too_many_arguments)]
fn push_iso(plan: &Plan, scen: &dyn Scenario, o: &CheckOpts, known: &[KnownFinding], results: &Mutex<Vec<RunResult>>, first_bad: &AtomicU64, idx: u64, ctx: Ctx, outcome: Outcome) {
    let bad = match &outcome {
        Outcome::Ok => false,
        Outcome::HarnessPanic(_) => true,
        Outcome::Violation(v) => !known.iter().any(|k| k.status == "open" && k.property == plan.prop && v.class.starts_with(&k.class_prefix)),
    };
    if bad {
        first_bad.fetch_min(idx, Ordering::SeqCst);
    }
    let case = if !matches!(outcome, Outcome::Ok) || idx < 3 {
        let rs = run_seed(o.seed, plan.prop, scen.name(), idx);
        Some(scen.generate(&mut Rng::new(rs), o.tier, idx))
    } else {
        None
    };
    results.lock().unwrap().push(RunResult { idx, ctx, outcome, case });
}

#[derive(Default)]
struct Merged {
    evaluations: u64,
    runs: u64,
    counters: BTreeMap<String, u64>,
    sigs: HashSet<u64>,
    states: HashSet<u64>,
    scheds: HashSet<u64>,
    samples: Vec<Value>,
    digest: u64,
    notes: Vec<String>,
}

pub struct KnownFinding {
    pub property: String,
    pub status: String,
    pub class_prefix: String,
    pub what: String,
    /// replay file (relative to /verif) that demonstrates an open finding
    pub replay: Option<String>,
}

pub fn load_known() -> Result<Vec<KnownFinding>, String> {
    let p = verif_root().join("known_findings.json");
    let Ok(s) = std::fs::read_to_string(&p) else {
        return Ok(Vec::new());
    };
    let v: Value = serde_json::from_str(&s).map_err(|e| format!("{}: {e}", p.display()))?;
    let mut out = Vec::new();
    for f in v.get("findings").and_then(Value::as_array).cloned().unwrap_or_default() {
        out.push(KnownFinding {
            property: f.get("property").and_then(Value::as_str).unwrap_or("").to_string(),
            status: f.get("status").and_then(Value::as_str).unwrap_or("").to_string(),
            class_prefix: f.get("class_prefix").and_then(Value::as_str).unwrap_or("\u{0}").to_string(),
            what: f.get("what").and_then(Value::as_str).unwrap_or("").to_string(),
            replay: f.get("replay").and_then(Value::as_str).map(str::to_string),
        });
    }
    Ok(out)
}

pub struct CheckOpts {
    pub tier: Tier,
    pub seed: u64,
    pub jobs: usize,
    pub max_s: f64,
    pub runs_scale: f64,
    pub write_evidence: bool,
}

/// Returns the process exit code.
pub fn run_check(plan: Plan, o: &CheckOpts) -> i32 {
    let t0 = Instant::now();
    set_current_prop(plan.prop);
    let known = match load_known() {
        Ok(k) => k,
        Err(e) => {
            eprintln!("harness error: {e}");
            return 2;
        }
    };
    let mut merged = Merged::default();
    let mut per_scen: Vec<Value> = Vec::new();
    let mut violations_found = 0u64;
    let mut known_hits: BTreeMap<String, (String, u64)> = BTreeMap::new();
    let mut truncated = false;
    let mut exit = 0;
    let mut rules = Vec::new();
    // open findings are re-demonstrated first, from their recorded case: the line is printed when
    // (and only when) the recorded case still fails in the recorded way on the tree under test
    for k in known.iter().filter(|k| k.status == "open" && k.property == plan.prop) {
        let Some(rp) = &k.replay else { continue };
        let Ok(text) = std::fs::read_to_string(verif_root().join(rp)) else {
            eprintln!("harness error: replay file of a listed finding is missing: {rp}");
            return 2;
        };
        let Ok(doc) = serde_json::from_str::<Value>(&text) else {
            eprintln!("harness error: replay file of a listed finding is not JSON: {rp}");
            return 2;
        };
        let name = doc["scenario"].as_str().unwrap_or("");
        let Some(b) = plan.batches.iter().find(|b| b.scen.name() == name) else { continue };
        let (_, r, hp) = execute_case(b.scen.as_ref(), &doc["case"], false);
        if let Some(m) = hp {
            eprintln!("harness error: replay of a listed finding panicked outside the system under test: {m}");
            return 2;
        }
        if matches!(&r, Err(v) if v.class.starts_with(&k.class_prefix)) {
            let e = known_hits.entry(k.class_prefix.clone()).or_insert((k.what.clone(), 0));
            e.1 += 1;
        }
    }
    let mut all_enumerated = true;

    'batches: for b in &plan.batches {
        let scen = b.scen.clone();
        let enumerated = scen.enumerated(o.tier);
        if enumerated.is_none() {
            all_enumerated = false;
        }
        let runs = enumerated.unwrap_or_else(|| ((b.runs as f64 * o.runs_scale).ceil() as u64).max(1));
        rules.push(format!("[{}] {}", scen.name(), scen.rule()));
        let next = AtomicU64::new(0);
        let stop = AtomicBool::new(false);
        let first_bad = AtomicU64::new(u64::MAX);
        let results: Mutex<Vec<RunResult>> = Mutex::new(Vec::new());
        let tb = Instant::now();
        if scen.isolated() {
            run_isolated_batch(&plan, scen.as_ref(), o, runs, t0, &known, &results, &first_bad, &stop);
        } else {
        std::thread::scope(|s| {
            for _ in 0..o.jobs.max(1) {
                s.spawn(|| {
                    loop {
                        let idx = next.fetch_add(1, Ordering::SeqCst);
                        if idx >= runs {
                            break;
                        }
                        // after a failure only lower indices still matter (deterministic choice
                        // of the reported run); indices are handed out in order, so stop here
                        if idx > first_bad.load(Ordering::SeqCst) || stop.load(Ordering::SeqCst) {
                            break;
                        }
                        if t0.elapsed().as_secs_f64() > o.max_s {
                            stop.store(true, Ordering::SeqCst);
                            break;
                        }
                        let rs = run_seed(o.seed, plan.prop, scen.name(), idx);
                        let mut rng = Rng::new(rs);
                        let case = match catch_unwind(AssertUnwindSafe(|| scen.generate(&mut rng, o.tier, idx))) {
                            Ok(c) => c,
                            Err(p) => {
                                let msg = sut::take_panic_message(p);
                                first_bad.fetch_min(idx, Ordering::SeqCst);
                                results.lock().unwrap().push(RunResult { idx, ctx: Ctx::default(), outcome: Outcome::HarnessPanic(format!("generate: {msg}")), case: None });
                                continue;
                            }
                        };
                        let (ctx, res, hp) = execute_case(scen.as_ref(), &case, false);
                        let outcome = match (res, hp) {
                            (_, Some(m)) => Outcome::HarnessPanic(m),
                            (Ok(()), None) => Outcome::Ok,
                            (Err(v), None) => Outcome::Violation(v),
                        };
                        let keep_case = !matches!(outcome, Outcome::Ok) || idx < 3;
                        if let Outcome::Violation(v) = &outcome {
                            // known findings do not stop the batch
                            let is_known = known.iter().any(|k| k.status == "open" && k.property == plan.prop && v.class.starts_with(&k.class_prefix));
                            if !is_known {
                                first_bad.fetch_min(idx, Ordering::SeqCst);
                            }
                        }
                        if matches!(outcome, Outcome::HarnessPanic(_)) {
                            first_bad.fetch_min(idx, Ordering::SeqCst);
                        }
                        results.lock().unwrap().push(RunResult { idx, ctx, outcome, case: if keep_case { Some(case) } else { None } });
                    }
                });
            }
        });
        }
        if stop.load(Ordering::SeqCst) {
            truncated = true;
        }
        let mut results = results.into_inner().unwrap();
        results.sort_by_key(|r| r.idx);
        let fb = first_bad.load(Ordering::SeqCst);
        let mut scen_runs = 0u64;
        let mut scen_evals = 0u64;
        for r in results {
            if r.idx > fb {
                continue;
            }
            scen_runs += 1;
            scen_evals += r.ctx.evals.max(1);
            merged.runs += 1;
            merged.evaluations += r.ctx.evals.max(1);
            for (k, v) in &r.ctx.counters {
                *merged.counters.entry(k.clone()).or_insert(0) += v;
            }
            for s in &r.ctx.sigs {
                merged.sigs.insert(*s ^ hash_str(scen.name()));
            }
            for s in &r.ctx.states {
                merged.states.insert(*s);
            }
            for s in &r.ctx.scheds {
                merged.scheds.insert(*s);
            }
            merged.digest = mix(merged.digest, r.ctx.digest ^ r.idx);
            for n in &r.ctx.notes {
                if merged.notes.len() < 20 && !merged.notes.contains(n) {
                    merged.notes.push(n.clone());
                }
            }
            if merged.samples.len() < 4 || (r.idx < 2 && merged.samples.len() < 12) {
                if let Some(c) = &r.case {
                    if matches!(r.outcome, Outcome::Ok) {
                        merged.samples.push(json!({"scenario": scen.name(), "run": r.idx, "seed": run_seed(o.seed, plan.prop, scen.name(), r.idx), "case": clip_value(c)}));
                    }
                }
            }
            match r.outcome {
                Outcome::Ok => {}
                Outcome::HarnessPanic(m) => {
                    eprintln!("harness error: scenario {} run {} panicked outside the system under test: {m}", scen.name(), r.idx);
                    return 2;
                }
                Outcome::Violation(v) => {
                    if let Some(k) = known.iter().find(|k| k.status == "open" && k.property == plan.prop && v.class.starts_with(&k.class_prefix)) {
                        let e = known_hits.entry(k.class_prefix.clone()).or_insert((k.what.clone(), 0));
                        e.1 += 1;
                        continue;
                    }
                    violations_found += 1;
                    let case = r.case.expect("case kept for failing run");
                    eprintln!("violation in scenario {} run {} (seed {}): [{}] {}", scen.name(), r.idx, o.seed, v.class, v.detail);
                    match report_violation(plan.prop, scen.as_ref(), o.seed, r.idx, &case, &v) {
                        Ok(path) => {
                            println!("VIOLATION property={} replay={}", plan.prop, path.display());
                            exit = 1;
                        }
                        Err(e) => {
                            eprintln!("harness error: {e}");
                            return 2;
                        }
                    }
                    per_scen.push(json!({"scenario": scen.name(), "runs": scen_runs, "evaluations": scen_evals, "wall_s": tb.elapsed().as_secs_f64()}));
                    break 'batches;
                }
            }
        }
        per_scen.push(json!({"scenario": scen.name(), "runs": scen_runs, "evaluations": scen_evals, "wall_s": round3(tb.elapsed().as_secs_f64())}));
    }
    for (prefix, (what, n)) in &known_hits {
        println!("KNOWN-FINDING: property={} {} (class {}…, hit {} times)", plan.prop, what, prefix, n);
    }
    let wall = t0.elapsed().as_secs_f64();
    if o.write_evidence {
        let fired: BTreeMap<&String, &u64> = merged.counters.iter().filter(|(k, _)| k.starts_with("fired_")).collect();
        let probes: BTreeMap<&String, &u64> = merged.counters.iter().filter(|(k, _)| k.starts_with("probe_")).collect();
        let ev = json!({
            "property_id": plan.prop,
            "tier": if o.tier == Tier::Quick { "quick" } else { "thorough" },
            "seed": o.seed,
            "level": plan.level,
            "coverage": {
                "evaluations": merged.evaluations,
                "distinct_nontrivial": merged.sigs.len(),
                "rule": rules.join(" || "),
                "samples": merged.samples,
                "exhaustive": all_enumerated && !truncated,
                "states": merged.states.len(),
                "states_measure": "distinct reference-model states (set of (id, content) pairs) reached after a mutating operation; 0 for scenarios without a stateful model",
                "distinct_schedule_policies": merged.scheds.len(),
                "distinct_schedule_policies_measure": "distinct (read transfer rule, write transfer rule, Pending rate/burst/wake/ctl) combinations under which streams were driven; each is further varied by its own seed per run",
                "simulated_runs": merged.runs,
                "runs_per_hour": if wall > 0.0 { (merged.runs as f64 / wall * 3600.0).round() } else { 0.0 },
                "simulated_time": "not applicable: the system has no clock or timer; progress is measured in simulated stream operations and bytes",
                "simulated_stream_operations": merged.counters.get("sim_stream_ops").copied().unwrap_or(0),
                "simulated_bytes_transferred": merged.counters.get("sim_bytes_read").copied().unwrap_or(0) + merged.counters.get("sim_bytes_written").copied().unwrap_or(0),
                "faults_fired": fired,
                "probes": probes,
                "counters": merged.counters,
                "per_scenario": per_scen,
                "truncated_by_wall_clock": truncated,
                "event_digest": format!("{:016x}", merged.digest),
                "known_findings_hit": known_hits.iter().map(|(k, v)| json!({"class_prefix": k, "what": v.0, "hits": v.1})).collect::<Vec<_>>(),
                "components_real": plan.real,
                "components_stub": plan.stubs,
                "extra_observations": merged.notes,
                "jobs": o.jobs,
            },
            "assumptions": plan.assumptions,
            "wall_s": round3(wall),
            "violations": violations_found,
        });
        let dir = verif_root().join("evidence");
        let _ = std::fs::create_dir_all(&dir);
        let path = dir.join(format!("{}.json", plan.prop));
        if let Err(e) = std::fs::write(&path, serde_json::to_string_pretty(&ev).unwrap() + "\n") {
            eprintln!("harness error: cannot write {}: {e}", path.display());
            return 2;
        }
    }
    eprintln!(
        "{} {}: {} runs, {} evaluations, {} distinct non-trivial, {:.1}s{}, digest {:016x} -> exit {}",
        plan.prop,
        if o.tier == Tier::Quick { "quick" } else { "thorough" },
        merged.runs,
        merged.evaluations,
        merged.sigs.len(),
        wall,
        if truncated { " (truncated by wall clock)" } else { "" },
        merged.digest,
        exit
    );
    exit
}

fn round3(x: f64) -> f64 {
    (x * 1000.0).round() / 1000.0
}

/// Shortens long arrays inside a sample so evidence files stay readable.
fn clip_value(v: &Value) -> Value {
    match v {
        Value::Array(a) if a.len() > 12 => {
            let mut out: Vec<Value> = a.iter().take(8).map(clip_value).collect();
            out.push(json!(format!("… {} more", a.len() - 8)));
            Value::Array(out)
        }
        Value::Array(a) => Value::Array(a.iter().map(clip_value).collect()),
        Value::Object(m) => Value::Object(m.iter().map(|(k, v)| (k.clone(), clip_value(v))).collect()),
        other => other.clone(),
    }
}

pub fn minimise(scen: &dyn Scenario, case: &Value, class: &str) -> (Value, Violation, u64) {
    let t0 = Instant::now();
    let mut cur = case.clone();
    let (_, r, _) = execute_case(scen, &cur, false);
    let mut cur_v = r.err().unwrap_or_else(|| Violation::new(class, "did not reproduce during minimisation"));
    let mut tried = 0u64;
    let mut progress = true;
    let max_tried: u64 = if scen.isolated() { 600 } else { 3000 };
    while progress && tried < max_tried && t0.elapsed().as_secs_f64() < 90.0 {
        progress = false;
        for cand in scen.shrink(&cur) {
            if cand == cur {
                continue;
            }
            tried += 1;
            let (_, r, hp) = execute_case(scen, &cand, false);
            if hp.is_some() {
                continue;
            }
            if let Err(v) = r {
                if v.class == class {
                    cur = cand;
                    cur_v = v;
                    progress = true;
                    break;
                }
            }
            if tried >= max_tried || t0.elapsed().as_secs_f64() > 90.0 {
                break;
            }
        }
    }
    (cur, cur_v, tried)
}

fn report_violation(prop: &str, scen: &dyn Scenario, seed: u64, idx: u64, case: &Value, v: &Violation) -> Result<PathBuf, String> {
    // 1. same seed must fail the same way again in this process (determinism of the run)
    let (_, again, hp) = execute_case(scen, case, false);
    if hp.is_some() || again.as_ref().err().map(|x| &x.class) != Some(&v.class) {
        return Err(format!("run {idx} of {} is not deterministic: first [{}], then {:?}", scen.name(), v.class, again.err().map(|x| x.class)));
    }
    // 2. minimise
    let (min_case, min_v, tried) = minimise(scen, case, &v.class);
    // 3. trace of the minimised case
    let (ctx, _, _) = execute_case(scen, &min_case, true);
    let dir = verif_root().join("replays");
    std::fs::create_dir_all(&dir).map_err(|e| e.to_string())?;
    let path = dir.join(format!("{prop}-{}-{seed}-{idx}.json", scen.name()));
    let doc = json!({
        "format": 1,
        "property": prop,
        "scenario": scen.name(),
        "seed": seed,
        "run": idx,
        "run_seed": run_seed(seed, prop, scen.name(), idx),
        "violation": {"class": min_v.class, "detail": min_v.detail},
        "original_violation": {"class": v.class, "detail": v.detail},
        "minimisation_candidates_tried": tried,
        "case": min_case,
        "original_case_size_bytes": case.to_string().len(),
        "trace": ctx.trace.unwrap_or_default(),
    });
    std::fs::write(&path, serde_json::to_string_pretty(&doc).unwrap() + "\n").map_err(|e| e.to_string())?;
    // 4. replay in a fresh process
    let exe = std::env::current_exe().map_err(|e| e.to_string())?;
    let out = std::process::Command::new(exe).arg("replay").arg(&path).output().map_err(|e| e.to_string())?;
    let stdout = String::from_utf8_lossy(&out.stdout);
    let want = format!("REPRODUCED class={}", min_v.class);
    if out.status.code() != Some(1) || !stdout.contains(&want) {
        return Err(format!("fresh-process replay of {} did not reproduce [{}]: exit {:?}, output: {}", path.display(), min_v.class, out.status.code(), stdout));
    }
    eprintln!("minimised after {tried} candidates; replay file {} reproduces in a fresh process: [{}] {}", path.display(), min_v.class, min_v.detail);
    Ok(path)
}

/// `pmtsim replay <file>`: exit 1 and a VIOLATION line when the recorded violation class
/// reproduces, exit 0 when the case now passes, exit 2 on harness errors.
pub fn replay(path: &Path, find: &dyn Fn(&str, &str) -> Option<Arc<dyn Scenario>>) -> i32 {
    let s = match std::fs::read_to_string(path) {
        Ok(s) => s,
        Err(e) => {
            eprintln!("harness error: {}: {e}", path.display());
            return 2;
        }
    };
    let doc: Value = match serde_json::from_str(&s) {
        Ok(v) => v,
        Err(e) => {
            eprintln!("harness error: {}: {e}", path.display());
            return 2;
        }
    };
    let prop = doc["property"].as_str().unwrap_or("");
    set_current_prop(prop);
    let scen_name = doc["scenario"].as_str().unwrap_or("");
    let Some(scen) = find(prop, scen_name) else {
        eprintln!("harness error: no scenario {scen_name} for property {prop}");
        return 2;
    };
    let want = doc["violation"]["class"].as_str().unwrap_or("");
    let (ctx, r, hp) = execute_case(scen.as_ref(), &doc["case"], true);
    if let Some(m) = hp {
        eprintln!("harness error: replay panicked outside the system under test: {m}");
        return 2;
    }
    for l in ctx.trace.unwrap_or_default() {
        println!("trace: {l}");
    }
    match r {
        Err(v) => {
            println!("violation: [{}] {}", v.class, v.detail);
            if v.class == want {
                println!("REPRODUCED class={}", v.class);
            } else {
                println!("DIFFERENT class={} (recorded {})", v.class, want);
            }
            println!("VIOLATION property={} replay={}", prop, path.display());
            1
        }
        Ok(()) => {
            println!("NOT-REPRODUCED: the case passes on the current tree");
            0
        }
    }
}
