//! Search driver: shards seeded runs over worker threads, merges results in run-index order,
//! minimises a failure, writes the replay file, re-executes it in a fresh process, writes evidence.

use std::collections::{BTreeMap, HashSet};
use std::panic::{catch_unwind, AssertUnwindSafe};
use std::path::{Path, PathBuf};
use std::sync::atomic::{AtomicBool, AtomicU64, Ordering};
use std::sync::{Arc, Mutex};
use std::time::Instant;

use serde_json::{json, Value};

use crate::rng::{hash_str, mix, Rng};
use crate::scen::{Ctx, Scenario, Tier};
use crate::sut::{self, Violation};

pub const DEFAULT_SEED: u64 = 20_260_926;

pub fn verif_root() -> PathBuf {
    if let Ok(p) = std::env::var("VERIF_ROOT") {
        return PathBuf::from(p);
    }
    Path::new(env!("CARGO_MANIFEST_DIR")).parent().map(Path::to_path_buf).unwrap_or_else(|| PathBuf::from("/verif"))
}

pub struct Batch {
    pub scen: Arc<dyn Scenario>,
    pub runs: u64,
}

pub struct Plan {
    pub prop: &'static str,
    pub level: &'static str,
    pub batches: Vec<Batch>,
    pub assumptions: Vec<String>,
    pub real: Vec<&'static str>,
    pub stubs: Vec<&'static str>,
}

pub fn run_seed(seed: u64, prop: &str, scen: &str, idx: u64) -> u64 {
    mix(mix(seed, hash_str(&format!("{prop}/{scen}"))), idx)
}

enum Outcome {
    Ok,
    Violation(Violation),
    HarnessPanic(String),
}

struct RunResult {
    idx: u64,
    ctx: Ctx,
    outcome: Outcome,
    case: Option<Value>,
}

pub fn execute_case(scen: &dyn Scenario, case: &Value, trace: bool) -> (Ctx, Result<(), Violation>, Option<String>) {
    let mut ctx = Ctx::default();
    if trace {
        ctx.trace = Some(Vec::new());
    }
    let r = catch_unwind(AssertUnwindSafe(|| scen.execute(case, &mut ctx)));
    match r {
        Ok(res) => (ctx, res, None),
        Err(p) => {
            let msg = sut::take_panic_message(p);
            (ctx, Ok(()), Some(msg))
        }
    }
}

#[derive(Default)]
struct Merged {
    evaluations: u64,
    runs: u64,
    counters: BTreeMap<String, u64>,
    sigs: HashSet<u64>,
    samples: Vec<Value>,
    digest: u64,
    notes: Vec<String>,
}

pub struct KnownFinding {
    pub property: String,
    pub status: String,
    pub class_prefix: String,
    pub what: String,
}

pub fn load_known() -> Result<Vec<KnownFinding>, String> {
    let p = verif_root().join("known_findings.json");
    let Ok(s) = std::fs::read_to_string(&p) else {
        return Ok(Vec::new());
    };
    let v: Value = serde_json::from_str(&s).map_err(|e| format!("{}: {e}", p.display()))?;
    let mut out = Vec::new();
    for f in v.get("findings").and_then(Value::as_array).cloned().unwrap_or_default() {
        out.push(KnownFinding {
            property: f.get("property").and_then(Value::as_str).unwrap_or("").to_string(),
            status: f.get("status").and_then(Value::as_str).unwrap_or("").to_string(),
            class_prefix: f.get("class_prefix").and_then(Value::as_str).unwrap_or("\u{0}").to_string(),
            what: f.get("what").and_then(Value::as_str).unwrap_or("").to_string(),
        });
    }
    Ok(out)
}

pub struct CheckOpts {
    pub tier: Tier,
    pub seed: u64,
    pub jobs: usize,
    pub max_s: f64,
    pub runs_scale: f64,
    pub write_evidence: bool,
}

/// Returns the process exit code.
pub fn run_check(plan: Plan, o: &CheckOpts) -> i32 {
    let t0 = Instant::now();
    let known = match load_known() {
        Ok(k) => k,
        Err(e) => {
            eprintln!("harness error: {e}");
            return 2;
        }
    };
    let mut merged = Merged::default();
    let mut per_scen: Vec<Value> = Vec::new();
    let mut violations_found = 0u64;
    let mut known_hits: BTreeMap<String, (String, u64)> = BTreeMap::new();
    let mut truncated = false;
    let mut exit = 0;
    let mut rules = Vec::new();
    let mut all_enumerated = true;

    'batches: for b in &plan.batches {
        let scen = b.scen.clone();
        let enumerated = scen.enumerated(o.tier);
        if enumerated.is_none() {
            all_enumerated = false;
        }
        let runs = enumerated.unwrap_or_else(|| ((b.runs as f64 * o.runs_scale).ceil() as u64).max(1));
        rules.push(format!("[{}] {}", scen.name(), scen.rule()));
        let next = AtomicU64::new(0);
        let stop = AtomicBool::new(false);
        let first_bad = AtomicU64::new(u64::MAX);
        let results: Mutex<Vec<RunResult>> = Mutex::new(Vec::new());
        let tb = Instant::now();
        std::thread::scope(|s| {
            for _ in 0..o.jobs.max(1) {
                s.spawn(|| {
                    loop {
                        let idx = next.fetch_add(1, Ordering::SeqCst);
                        if idx >= runs {
                            break;
                        }
                        // after a failure only lower indices still matter (deterministic choice
                        // of the reported run); indices are handed out in order, so stop here
                        if idx > first_bad.load(Ordering::SeqCst) || stop.load(Ordering::SeqCst) {
                            break;
                        }
                        if t0.elapsed().as_secs_f64() > o.max_s {
                            stop.store(true, Ordering::SeqCst);
                            break;
                        }
                        let rs = run_seed(o.seed, plan.prop, scen.name(), idx);
                        let mut rng = Rng::new(rs);
                        let case = match catch_unwind(AssertUnwindSafe(|| scen.generate(&mut rng, o.tier, idx))) {
                            Ok(c) => c,
                            Err(p) => {
                                let msg = sut::take_panic_message(p);
                                first_bad.fetch_min(idx, Ordering::SeqCst);
                                results.lock().unwrap().push(RunResult { idx, ctx: Ctx::default(), outcome: Outcome::HarnessPanic(format!("generate: {msg}")), case: None });
                                continue;
                            }
                        };
                        let (ctx, res, hp) = execute_case(scen.as_ref(), &case, false);
                        let outcome = match (res, hp) {
                            (_, Some(m)) => Outcome::HarnessPanic(m),
                            (Ok(()), None) => Outcome::Ok,
                            (Err(v), None) => Outcome::Violation(v),
                        };
                        let keep_case = !matches!(outcome, Outcome::Ok) || idx < 3;
                        if let Outcome::Violation(v) = &outcome {
                            // known findings do not stop the batch
                            let is_known = known.iter().any(|k| k.status == "open" && k.property == plan.prop && v.class.starts_with(&k.class_prefix));
                            if !is_known {
                                first_bad.fetch_min(idx, Ordering::SeqCst);
                            }
                        }
                        if matches!(outcome, Outcome::HarnessPanic(_)) {
                            first_bad.fetch_min(idx, Ordering::SeqCst);
                        }
                        results.lock().unwrap().push(RunResult { idx, ctx, outcome, case: if keep_case { Some(case) } else { None } });
                    }
                });
            }
        });
        if stop.load(Ordering::SeqCst) {
            truncated = true;
        }
        let mut results = results.into_inner().unwrap();
        results.sort_by_key(|r| r.idx);
        let fb = first_bad.load(Ordering::SeqCst);
        let mut scen_runs = 0u64;
        let mut scen_evals = 0u64;
        for r in results {
            if r.idx > fb {
                continue;
            }
            scen_runs += 1;
            scen_evals += r.ctx.evals.max(1);
            merged.runs += 1;
            merged.evaluations += r.ctx.evals.max(1);
            for (k, v) in &r.ctx.counters {
                *merged.counters.entry(k.clone()).or_insert(0) += v;
            }
            for s in &r.ctx.sigs {
                merged.sigs.insert(*s ^ hash_str(scen.name()));
            }
            merged.digest = mix(merged.digest, r.ctx.digest ^ r.idx);
            for n in &r.ctx.notes {
                if merged.notes.len() < 20 && !merged.notes.contains(n) {
                    merged.notes.push(n.clone());
                }
            }
            if merged.samples.len() < 4 || (r.idx < 2 && merged.samples.len() < 12) {
                if let Some(c) = &r.case {
                    if matches!(r.outcome, Outcome::Ok) {
                        merged.samples.push(json!({"scenario": scen.name(), "run": r.idx, "seed": run_seed(o.seed, plan.prop, scen.name(), r.idx), "case": clip_value(c)}));
                    }
                }
            }
            match r.outcome {
                Outcome::Ok => {}
                Outcome::HarnessPanic(m) => {
                    eprintln!("harness error: scenario {} run {} panicked outside the system under test: {m}", scen.name(), r.idx);
                    return 2;
                }
                Outcome::Violation(v) => {
                    if let Some(k) = known.iter().find(|k| k.status == "open" && k.property == plan.prop && v.class.starts_with(&k.class_prefix)) {
                        let e = known_hits.entry(k.class_prefix.clone()).or_insert((k.what.clone(), 0));
                        e.1 += 1;
                        continue;
                    }
                    violations_found += 1;
                    let case = r.case.expect("case kept for failing run");
                    eprintln!("violation in scenario {} run {} (seed {}): [{}] {}", scen.name(), r.idx, o.seed, v.class, v.detail);
                    match report_violation(plan.prop, scen.as_ref(), o.seed, r.idx, &case, &v) {
                        Ok(path) => {
                            println!("VIOLATION property={} replay={}", plan.prop, path.display());
                            exit = 1;
                        }
                        Err(e) => {
                            eprintln!("harness error: {e}");
                            return 2;
                        }
                    }
                    per_scen.push(json!({"scenario": scen.name(), "runs": scen_runs, "evaluations": scen_evals, "wall_s": tb.elapsed().as_secs_f64()}));
                    break 'batches;
                }
            }
        }
        per_scen.push(json!({"scenario": scen.name(), "runs": scen_runs, "evaluations": scen_evals, "wall_s": round3(tb.elapsed().as_secs_f64())}));
    }
    for (prefix, (what, n)) in &known_hits {
        println!("KNOWN-FINDING: property={} {} (class {}…, hit {} times)", plan.prop, what, prefix, n);
    }
    let wall = t0.elapsed().as_secs_f64();
    if o.write_evidence {
        let fired: BTreeMap<&String, &u64> = merged.counters.iter().filter(|(k, _)| k.starts_with("fired_")).collect();
        let probes: BTreeMap<&String, &u64> = merged.counters.iter().filter(|(k, _)| k.starts_with("probe_")).collect();
        let ev = json!({
            "property_id": plan.prop,
            "tier": if o.tier == Tier::Quick { "quick" } else { "thorough" },
            "seed": o.seed,
            "level": plan.level,
            "coverage": {
                "evaluations": merged.evaluations,
                "distinct_nontrivial": merged.sigs.len(),
                "rule": rules.join(" || "),
                "samples": merged.samples,
                "exhaustive": all_enumerated && !truncated,
                "simulated_runs": merged.runs,
                "runs_per_hour": if wall > 0.0 { (merged.runs as f64 / wall * 3600.0).round() } else { 0.0 },
                "simulated_time": "not applicable: the system has no clock or timer; progress is measured in simulated stream operations and bytes",
                "simulated_stream_operations": merged.counters.get("sim_stream_ops").copied().unwrap_or(0),
                "simulated_bytes_transferred": merged.counters.get("sim_bytes_read").copied().unwrap_or(0) + merged.counters.get("sim_bytes_written").copied().unwrap_or(0),
                "faults_fired": fired,
                "probes": probes,
                "counters": merged.counters,
                "per_scenario": per_scen,
                "truncated_by_wall_clock": truncated,
                "event_digest": format!("{:016x}", merged.digest),
                "known_findings_hit": known_hits.iter().map(|(k, v)| json!({"class_prefix": k, "what": v.0, "hits": v.1})).collect::<Vec<_>>(),
                "components_real": plan.real,
                "components_stub": plan.stubs,
                "extra_observations": merged.notes,
                "jobs": o.jobs,
            },
            "assumptions": plan.assumptions,
            "wall_s": round3(wall),
            "violations": violations_found,
        });
        let dir = verif_root().join("evidence");
        let _ = std::fs::create_dir_all(&dir);
        let path = dir.join(format!("{}.json", plan.prop));
        if let Err(e) = std::fs::write(&path, serde_json::to_string_pretty(&ev).unwrap() + "\n") {
            eprintln!("harness error: cannot write {}: {e}", path.display());
            return 2;
        }
    }
    eprintln!(
        "{} {}: {} runs, {} evaluations, {} distinct non-trivial, {:.1}s{}, digest {:016x} -> exit {}",
        plan.prop,
        if o.tier == Tier::Quick { "quick" } else { "thorough" },
        merged.runs,
        merged.evaluations,
        merged.sigs.len(),
        wall,
        if truncated { " (truncated by wall clock)" } else { "" },
        merged.digest,
        exit
    );
    exit
}

fn round3(x: f64) -> f64 {
    (x * 1000.0).round() / 1000.0
}

/// Shortens long arrays inside a sample so evidence files stay readable.
fn clip_value(v: &Value) -> Value {
    match v {
        Value::Array(a) if a.len() > 12 => {
            let mut out: Vec<Value> = a.iter().take(8).map(clip_value).collect();
            out.push(json!(format!("… {} more", a.len() - 8)));
            Value::Array(out)
        }
        Value::Array(a) => Value::Array(a.iter().map(clip_value).collect()),
        Value::Object(m) => Value::Object(m.iter().map(|(k, v)| (k.clone(), clip_value(v))).collect()),
        other => other.clone(),
    }
}

pub fn minimise(scen: &dyn Scenario, case: &Value, class: &str) -> (Value, Violation, u64) {
    let t0 = Instant::now();
    let mut cur = case.clone();
    let (_, r, _) = execute_case(scen, &cur, false);
    let mut cur_v = r.err().unwrap_or_else(|| Violation::new(class, "did not reproduce during minimisation"));
    let mut tried = 0u64;
    let mut progress = true;
    while progress && tried < 3000 && t0.elapsed().as_secs_f64() < 90.0 {
        progress = false;
        for cand in scen.shrink(&cur) {
            if cand == cur {
                continue;
            }
            tried += 1;
            let (_, r, hp) = execute_case(scen, &cand, false);
            if hp.is_some() {
                continue;
            }
            if let Err(v) = r {
                if v.class == class {
                    cur = cand;
                    cur_v = v;
                    progress = true;
                    break;
                }
            }
            if tried >= 3000 || t0.elapsed().as_secs_f64() > 90.0 {
                break;
            }
        }
    }
    (cur, cur_v, tried)
}

fn report_violation(prop: &str, scen: &dyn Scenario, seed: u64, idx: u64, case: &Value, v: &Violation) -> Result<PathBuf, String> {
    // 1. same seed must fail the same way again in this process (determinism of the run)
    let (_, again, hp) = execute_case(scen, case, false);
    if hp.is_some() || again.as_ref().err().map(|x| &x.class) != Some(&v.class) {
        return Err(format!("run {idx} of {} is not deterministic: first [{}], then {:?}", scen.name(), v.class, again.err().map(|x| x.class)));
    }
    // 2. minimise
    let (min_case, min_v, tried) = minimise(scen, case, &v.class);
    // 3. trace of the minimised case
    let (ctx, _, _) = execute_case(scen, &min_case, true);
    let dir = verif_root().join("replays");
    std::fs::create_dir_all(&dir).map_err(|e| e.to_string())?;
    let path = dir.join(format!("{prop}-{}-{seed}-{idx}.json", scen.name()));
    let doc = json!({
        "format": 1,
        "property": prop,
        "scenario": scen.name(),
        "seed": seed,
        "run": idx,
        "run_seed": run_seed(seed, prop, scen.name(), idx),
        "violation": {"class": min_v.class, "detail": min_v.detail},
        "original_violation": {"class": v.class, "detail": v.detail},
        "minimisation_candidates_tried": tried,
        "case": min_case,
        "original_case_size_bytes": case.to_string().len(),
        "trace": ctx.trace.unwrap_or_default(),
    });
    std::fs::write(&path, serde_json::to_string_pretty(&doc).unwrap() + "\n").map_err(|e| e.to_string())?;
    // 4. replay in a fresh process
    let exe = std::env::current_exe().map_err(|e| e.to_string())?;
    let out = std::process::Command::new(exe).arg("replay").arg(&path).output().map_err(|e| e.to_string())?;
    let stdout = String::from_utf8_lossy(&out.stdout);
    let want = format!("REPRODUCED class={}", min_v.class);
    if out.status.code() != Some(1) || !stdout.contains(&want) {
        return Err(format!("fresh-process replay of {} did not reproduce [{}]: exit {:?}, output: {}", path.display(), min_v.class, out.status.code(), stdout));
    }
    eprintln!("minimised after {tried} candidates; replay file {} reproduces in a fresh process: [{}] {}", path.display(), min_v.class, min_v.detail);
    Ok(path)
}

/// `pmtsim replay <file>`: exit 1 and a VIOLATION line when the recorded violation class
/// reproduces, exit 0 when the case now passes, exit 2 on harness errors.
pub fn replay(path: &Path, find: &dyn Fn(&str, &str) -> Option<Arc<dyn Scenario>>) -> i32 {
    let s = match std::fs::read_to_string(path) {
        Ok(s) => s,
        Err(e) => {
            eprintln!("harness error: {}: {e}", path.display());
            return 2;
        }
    };
    let doc: Value = match serde_json::from_str(&s) {
        Ok(v) => v,
        Err(e) => {
            eprintln!("harness error: {}: {e}", path.display());
            return 2;
        }
    };
    let prop = doc["property"].as_str().unwrap_or("");
    let scen_name = doc["scenario"].as_str().unwrap_or("");
    let Some(scen) = find(prop, scen_name) else {
        eprintln!("harness error: no scenario {scen_name} for property {prop}");
        return 2;
    };
    let want = doc["violation"]["class"].as_str().unwrap_or("");
    let (ctx, r, hp) = execute_case(scen.as_ref(), &doc["case"], true);
    if let Some(m) = hp {
        eprintln!("harness error: replay panicked outside the system under test: {m}");
        return 2;
    }
    for l in ctx.trace.unwrap_or_default() {
        println!("trace: {l}");
    }
    match r {
        Err(v) => {
            println!("violation: [{}] {}", v.class, v.detail);
            if v.class == want {
                println!("REPRODUCED class={}", v.class);
            } else {
                println!("DIFFERENT class={} (recorded {})", v.class, want);
            }
            println!("VIOLATION property={} replay={}", prop, path.display());
            1
        }
        Ok(()) => {
            println!("NOT-REPRODUCED: the case passes on the current tree");
            0
        }
    }
}
