//! Own PRNG (SplitMix64 seeding + xoshiro256**). No external crate: an upgrade of `rand` can
//! never change an execution. Every decision of a run derives from one `Rng` forked by label.

#[derive(Clone, Debug)]
pub struct Rng {
    s: [u64; 4],
}

pub fn splitmix(state: &mut u64) -> u64 {
    *state = state.wrapping_add(0x9E37_79B9_7F4A_7C15);
    let mut z = *state;
    z = (z ^ (z >> 30)).wrapping_mul(0xBF58_476D_1CE4_E5B9);
    z = (z ^ (z >> 27)).wrapping_mul(0x94D0_49BB_1331_11EB);
    z ^ (z >> 31)
}

/// Mixes two integers into one seed.
pub fn mix(a: u64, b: u64) -> u64 {
    let mut s = a ^ 0x5851_F42D_4C95_7F2D;
    let x = splitmix(&mut s);
    let mut t = x ^ b.rotate_left(29) ^ 0xD6E8_FEB8_6659_FD93;
    splitmix(&mut t)
}

pub fn hash_str(s: &str) -> u64 {
    let mut h: u64 = 0xcbf2_9ce4_8422_2325;
    for b in s.bytes() {
        h ^= u64::from(b);
        h = h.wrapping_mul(0x0000_0100_0000_01B3);
    }
    h
}

pub fn hash_bytes(h0: u64, data: &[u8]) -> u64 {
    let mut h = h0 ^ 0xcbf2_9ce4_8422_2325;
    for b in data {
        h ^= u64::from(*b);
        h = h.wrapping_mul(0x0000_0100_0000_01B3);
    }
    h
}

impl Rng {
    pub fn new(seed: u64) -> Self {
        let mut st = seed;
        let s = [
            splitmix(&mut st),
            splitmix(&mut st),
            splitmix(&mut st),
            splitmix(&mut st),
        ];
        Self { s }
    }

    /// Independent sub-stream: does not advance `self`.
    pub fn fork(&self, label: &str) -> Self {
        Self::new(mix(self.s[0] ^ self.s[2].rotate_left(17), hash_str(label)))
    }

    pub fn next_u64(&mut self) -> u64 {
        let result = self.s[1].wrapping_mul(5).rotate_left(7).wrapping_mul(9);
        let t = self.s[1] << 17;
        self.s[2] ^= self.s[0];
        self.s[3] ^= self.s[1];
        self.s[1] ^= self.s[2];
        self.s[0] ^= self.s[3];
        self.s[2] ^= t;
        self.s[3] = self.s[3].rotate_left(45);
        result
    }

    /// Uniform in [0, n). n must be > 0.
    pub fn below(&mut self, n: u64) -> u64 {
        debug_assert!(n > 0);
        // multiply-shift; bias is negligible for our n and irrelevant for soundness
        ((u128::from(self.next_u64()) * u128::from(n)) >> 64) as u64
    }

    pub fn usize_below(&mut self, n: usize) -> usize {
        self.below(n as u64) as usize
    }

    /// Uniform in [lo, hi] inclusive.
    pub fn range(&mut self, lo: u64, hi: u64) -> u64 {
        debug_assert!(lo <= hi);
        if lo == 0 && hi == u64::MAX {
            return self.next_u64();
        }
        lo + self.below(hi - lo + 1)
    }

    pub fn chance(&mut self, pct: u64) -> bool {
        self.below(100) < pct
    }

    pub fn pick<'a, T>(&mut self, items: &'a [T]) -> &'a T {
        &items[self.usize_below(items.len())]
    }

    pub fn shuffle<T>(&mut self, items: &mut [T]) {
        for i in (1..items.len()).rev() {
            let j = self.usize_below(i + 1);
            items.swap(i, j);
        }
    }

    pub fn fill(&mut self, buf: &mut [u8]) {
        let mut chunks = buf.chunks_exact_mut(8);
        for c in &mut chunks {
            c.copy_from_slice(&self.next_u64().to_le_bytes());
        }
        let rem = chunks.into_remainder();
        if !rem.is_empty() {
            let v = self.next_u64().to_le_bytes();
            let n = rem.len();
            rem.copy_from_slice(&v[..n]);
        }
    }

    /// log-uniform-ish size in [lo, hi]
    pub fn log_range(&mut self, lo: u64, hi: u64) -> u64 {
        debug_assert!(lo <= hi);
        if lo == hi {
            return lo;
        }
        let lo_b = 64 - lo.max(1).leading_zeros();
        let hi_b = 64 - hi.max(1).leading_zeros();
        let b = self.range(u64::from(lo_b), u64::from(hi_b));
        let top = if b >= 64 { u64::MAX } else { (1u64 << b) - 1 };
        let bot = if b <= 1 { 0 } else { 1u64 << (b - 1) };
        self.range(bot.max(lo).min(hi), top.min(hi).max(lo))
    }
}
