//! Writer-side scenarios on the simulated disk:
//!  * C17: crash after every prefix of the recorded write/seek log (exhaustive in k)
//!  * C18: writer started at position P on a pre-filled disk
//!  * C16: canonical output bytes across edit histories, hash orders and OS processes

use serde::{Deserialize, Serialize};
use serde_json::Value;

use crate::case::{draw_archive, draw_size, Archive, Cont, Face, Model, Sched, SizeClass, Tile};
use crate::disk::{Op, OpKind, Pend, Policy, SimDisk, Xfer};
use crate::rng::{hash_bytes, Rng};
use crate::scen::{case_sig, from_value, shrink_archive, shrink_policy, to_value, Ctx, Scenario, Tier};
use crate::scen_life::draw_ic;
use crate::sut::{self, V};
use crate::{ensure, vio};

// ---------------------------------------------------------------------------------------------
// C17

#[derive(Clone, Debug, Serialize, Deserialize)]
pub struct TornCase {
    pub a: Archive,
    pub face: Face,
    /// Pending answers allowed (they do not split a write); transfers are always Full
    pub pend: Pend,
    pub seed: u64,
    pub only_k: Option<u64>,
    /// leaf-spilling archive with uncompressed directories (one write per number, tens of
    /// thousands of operations): the crash points are the first 40, the last 400 and 300 seeded
    /// ones in between instead of all of them
    #[serde(default)]
    pub sample: bool,
    /// 0: the archive is built in memory. 1: it is first written to a scratch stream and
    /// reopened, so that every tile is reader-backed when the recorded save happens. 2: as 1,
    /// and `extra` in-memory tiles are added to the reopened archive before the recorded save.
    #[serde(default)]
    pub reopen: u8,
    #[serde(default)]
    pub extra: Vec<crate::case::Tile>,
}

pub struct TornWrite;

/// Performs the recorded save of a case: (complete image, operation log).
fn recorded_save(c: &TornCase, ctx: &mut Ctx) -> V<Result<(Vec<u8>, Vec<Op>), String>> {
    let mut pm = sut::build(&c.a)?;
    if c.reopen != 0 {
        let mut scratch = SimDisk::plain(Vec::new());
        if let Err(e) = sut::save(pm, &mut scratch, Face::Sync)? {
            return Ok(Err(format!("scratch save failed: {e}")));
        }
        pm = match sut::open(SimDisk::plain(scratch.image()), c.face)? {
            Ok(p) => p,
            Err(e) => return Ok(Err(format!("reopening the scratch image failed: {e}"))),
        };
        for t in &c.extra {
            if let Err(e) = pm.add_tile(t.id, t.c.bytes()) {
                return Ok(Err(format!("add_tile on the reopened archive failed: {e}")));
            }
        }
        ctx.bump(if c.extra.is_empty() { "saves_of_reader_backed_archives" } else { "saves_of_mixed_reader_backed_and_memory_archives" }, 1);
    }
    let pol = Policy { rd: Xfer::Full, wr: Xfer::Full, pend: c.pend, seed: c.seed };
    let mut out = SimDisk::new(Vec::new(), &pol).recording(true);
    pmtiles2::verif::set_scramble_seed(Some(c.seed));
    let r = sut::save(pm, &mut out, c.face);
    pmtiles2::verif::set_scramble_seed(None);
    ctx.absorb(&out);
    if let Err(e) = r? {
        return Ok(Err(e.to_string()));
    }
    Ok(Ok((out.image(), out.take_log())))
}

fn crash_points(n: usize, sample: bool, seed: u64) -> Vec<usize> {
    if !sample || n <= 800 {
        return (0..=n).collect();
    }
    let mut r = Rng::new(seed ^ 0x7042);
    let mut ks: Vec<usize> = (0..40).chain(n - 400..=n).collect();
    for _ in 0..300 {
        ks.push(40 + r.usize_below(n - 440));
    }
    ks.sort_unstable();
    ks.dedup();
    ks
}

fn image_after(log: &[Op], k: usize) -> Vec<u8> {
    let mut img: Vec<u8> = Vec::new();
    for op in &log[..k] {
        if op.kind == OpKind::Write && op.ok {
            if let Some(d) = &op.data {
                let p = op.pos as usize;
                if img.len() < p + d.len() {
                    img.resize(p + d.len(), 0);
                }
                img[p..p + d.len()].copy_from_slice(d);
            }
        }
    }
    img
}

impl Scenario for TornWrite {
    fn name(&self) -> &'static str {
        "torn-write"
    }
    fn rule(&self) -> String {
        "archive (root-only / leaf spill, 4 codecs, sync/async writer) written once on a fresh non-fragmenting disk with data recording; for every k in [0, N] the image after the first k recorded operations is rebuilt and handed to PMTiles::from_bytes; each evaluation = one crash point; distinct = distinct (case, k); non-trivial = 0 < k < N".into()
    }
    fn generate(&self, rng: &mut Rng, tier: Tier, run: u64) -> Value {
        if run < 4 {
            // runs 0-3: archives with more than 16 MiB (runs 0, 1) / 64 MiB (2, 3) of tile data:
            // a few multi-megabyte tiles next to small ones; built in memory or reader-backed
            let ic = 1 + rng.below(4) as u8;
            let mut a = draw_archive(rng, SizeClass::Tens, if ic == 1 { 2 } else { ic });
            let (n, each) = if run < 2 { (9u32, 2u32 << 20) } else { (4, 17 << 20) };
            let mut id = a.tiles.iter().map(|t| t.id).max().map_or(0, |m| m + 1);
            for i in 0..n {
                a.tiles.push(crate::case::Tile { id, c: crate::case::Cont { k: 4, seed: i, len: each + 1 + rng.below(70_000) as u32 } });
                id += 1 + rng.below(5);
            }
            let face = if run % 2 == 0 { Face::Sync } else { Face::Async };
            return to_value(&TornCase { a, face, pend: Pend::NEVER, seed: rng.next_u64(), only_k: None, sample: false, reopen: if rng.chance(50) { 1 } else { 0 }, extra: Vec::new() });
        }
        let huge = rng.chance(if tier == Tier::Quick { 3 } else { 5 });
        let ic = if huge { *rng.pick(&[2u8, 4, 2, 4, 3]) } else { 1 + rng.below(4) as u8 };
        let size = if huge {
            SizeClass::Huge
        } else if ic == 1 {
            // uncompressed directories issue one write per varint: keep the sweep exhaustive
            *rng.pick(&[SizeClass::Empty, SizeClass::One, SizeClass::Tens, SizeClass::Tens])
        } else {
            draw_size(rng, 0)
        };
        let face = Face::draw(rng);
        let pend = if face == Face::Async && rng.chance(60) { Pend { rate: 50, burst: 2, inline: 50, ctl: true } } else { Pend::NEVER };
        if rng.chance(2) {
            return to_value(&TornCase { a: draw_archive(rng, SizeClass::Huge, 1), face, pend, seed: rng.next_u64(), only_k: None, sample: true, reopen: 0, extra: Vec::new() });
        }
        let a = draw_archive(rng, size, ic);
        // a third of the saves are saves of an archive that was opened from a reader (every tile
        // reader-backed), half of those with a few in-memory tiles added after the open
        let seed = rng.next_u64();
        let mut reopen = 0u8;
        let mut extra = Vec::new();
        if seed % 3 == 0 && !huge {
            reopen = 1;
            if (seed >> 8) % 2 == 0 {
                reopen = 2;
                let mut r = Rng::new(seed ^ 0xE47A);
                for _ in 0..1 + r.below(4) {
                    let id = if r.chance(50) || a.tiles.is_empty() { r.below(2000) } else { a.tiles[r.usize_below(a.tiles.len())].id.saturating_add(r.below(3)) };
                    extra.push(crate::case::Tile { id: id.min(crate::spec::max_valid_id()), c: crate::case::Cont { k: 0, seed: r.below(1 << 20) as u32, len: 1 + r.below(300) as u32 } });
                }
            }
        }
        to_value(&TornCase { a, face, pend, seed, only_k: None, sample: false, reopen, extra })
    }
    fn execute(&self, case: &Value, ctx: &mut Ctx) -> V<()> {
        let c: TornCase = from_value(case);
        let (complete, log) = match recorded_save(&c, ctx)? {
            Ok(x) => x,
            Err(e) => vio!("C17:save-failed", "writing a valid archive on a fault-free stream failed: {e}"),
        };
        let n = log.len();
        ctx.bump("recorded_ops_total", n as u64);
        let ks: Vec<usize> = match c.only_k {
            Some(k) => vec![(k as usize).min(n)],
            None => crash_points(n, c.sample, c.seed),
        };
        if c.sample {
            ctx.bump("sampled_sweeps_uncompressed_leaf_archives", 1);
        }
        let mut last_img_hash = u64::MAX;
        for k in ks {
            ctx.evals += 1;
            let img = image_after(&log, k);
            if k > 0 && k < n {
                ctx.sig(case_sig(case) ^ (k as u64).wrapping_mul(0x9E37_79B9_7F4A_7C15));
            }
            let h = hash_bytes(img.len() as u64, &img);
            if h == last_img_hash {
                // seek / flush / close did not change the image: already judged
                ctx.bump("crash_points_same_image_as_previous", 1);
                continue;
            }
            last_img_hash = h;
            ctx.bump("fired_crash_points", 1);
            let identical = img == complete;
            let opened = sut::guard("from_bytes(torn image)", || pmtiles2::PMTiles::from_bytes(&img[..]).map(|p| p.num_tiles()))?;
            match opened {
                Err(_) => ctx.bump("torn_images_rejected", 1),
                Ok(nt) => {
                    ensure!(identical, "C17:torn-image-opens", "crash after {k} of {n} stream operations leaves {} bytes that open successfully ({nt} tiles) although they differ from the complete archive of {} bytes", img.len(), complete.len());
                    ctx.bump("complete_images_opened", 1);
                }
            }
        }
        Ok(())
    }
    fn shrink(&self, case: &Value) -> Vec<Value> {
        let c: TornCase = from_value(case);
        let mut out = Vec::new();
        if c.only_k.is_none() {
            // pin the crash point: find the first k whose image opens although it is incomplete
            if let Ok(Ok((complete, log))) = recorded_save(&c, &mut Ctx::default()) {
                for k in crash_points(log.len(), c.sample, c.seed) {
                    let img = image_after(&log, k);
                    if img != complete && pmtiles2::PMTiles::from_bytes(&img[..]).is_ok() {
                        out.push(to_value(&TornCase { only_k: Some(k as u64), ..c.clone() }));
                        break;
                    }
                }
            }
            return out;
        }
        for a in shrink_archive(&c.a) {
            out.push(to_value(&TornCase { a, only_k: None, ..c.clone() }));
        }
        if c.face == Face::Async {
            out.push(to_value(&TornCase { face: Face::Sync, only_k: None, ..c.clone() }));
        }
        if c.pend.rate != 0 {
            out.push(to_value(&TornCase { pend: Pend::NEVER, only_k: None, ..c.clone() }));
        }
        if !c.extra.is_empty() {
            out.push(to_value(&TornCase { extra: Vec::new(), reopen: 1, only_k: None, ..c.clone() }));
        }
        if c.reopen != 0 && c.extra.is_empty() {
            out.push(to_value(&TornCase { reopen: 0, only_k: None, ..c.clone() }));
        }
        out
    }
}

// ---------------------------------------------------------------------------------------------
// C18

#[derive(Clone, Debug, Serialize, Deserialize)]
pub struct StartCase {
    pub a: Archive,
    pub face: Face,
    pub p: u64,
    /// bytes of old content already on the stream beyond P
    pub beyond: u32,
    pub pol: Policy,
    pub scramble: u64,
}

pub struct StartPos;

/// util::write_directories started at P must produce what it produces at 0, shifted by P.
#[derive(Clone, Debug, Serialize, Deserialize)]
pub struct StartDirsCase {
    pub n: u32,
    pub seed: u64,
    pub ic: u8,
    pub start: Option<u32>,
    pub p: u32,
    pub face: Face,
    pub pol: Policy,
}

pub struct StartPosDirs;

impl Scenario for StartPosDirs {
    fn name(&self) -> &'static str {
        "start-position-directories"
    }
    fn rule(&self) -> String {
        "util::write_directories / write_directories_async (the step of the archive writer that re-seeks to the start of the root directory) on a stream pre-filled with P sentinel bytes and positioned at P, with entry lists that spill and small initial leaf sizes that force re-seeks; compared with the same call at position 0; distinct = distinct serialized cases; non-trivial = P > 0".into()
    }
    fn generate(&self, rng: &mut Rng, _tier: Tier, _run: u64) -> Value {
        let face = Face::draw(rng);
        to_value(&StartDirsCase {
            n: *rng.pick(&[0u32, 5, 300, 1900, 2300, 2600, 3000]),
            seed: rng.below(16),
            ic: *rng.pick(&[1u8, 1, 2, 4, 3]),
            start: *rng.pick(&[None, Some(1), Some(2), Some(7), Some(64), Some(4096)]),
            p: *rng.pick(&[1u32, 10, 127, 128, 4096, 10_000, 54_321]),
            face,
            pol: Policy::draw(rng, face == Face::Async),
        })
    }
    fn execute(&self, case: &Value, ctx: &mut Ctx) -> V<()> {
        use crate::scen_stream::{perform, Call, Out};
        let c: StartDirsCase = from_value(case);
        ctx.evals += 1;
        ctx.sig(case_sig(case));
        let at0 = perform(&Call::WriteDirs { n: c.n, seed: c.seed, ic: c.ic, start: c.start, pos: 0 }, c.face, &Policy::plain(), &mut Ctx::default(), "C18")?;
        let atp = perform(&Call::WriteDirs { n: c.n, seed: c.seed, ic: c.ic, start: c.start, pos: c.p }, c.face, &c.pol, ctx, "C18")?;
        match (&at0, &atp) {
            (Out::Bytes(b0, l0), Out::Bytes(bp, lp)) => {
                let p = c.p as usize;
                ensure!(bp.len() >= p && bp[..p].iter().all(|b| *b == 0x5A), "C18:bytes-before-start-clobbered", "write_directories started at position {p} modified bytes before it");
                ensure!(bp[p..] == b0[..], "C18:not-position-independent", "root directory written at position {p} ({} bytes) differs from the one written at position 0 ({} bytes)", bp.len() - p, b0.len());
                ensure!(lp == l0, "C18:not-position-independent", "leaf section returned at position {p} differs from the one at position 0");
            }
            (Out::Bytes(..), other) => vio!("C18:save-failed", "write_directories succeeds at position 0 but at position {}: {:?}", c.p, other),
            (other, _) => vio!("C18:save-failed", "write_directories on a fault-free stream at position 0 does not succeed: {:?}", other),
        }
        Ok(())
    }
}

impl Scenario for StartPos {
    fn name(&self) -> &'static str {
        "start-position"
    }
    fn rule(&self) -> String {
        "archive (with / without leaf spill, 4 codecs, sync/async) written on a stream pre-filled with P sentinel bytes (P in {0,1,10,126,127,128,4096,random}) and optionally old content beyond, positioned at P; compared with the same archive written at position 0; distinct = distinct serialized cases; non-trivial = P > 0".into()
    }
    fn generate(&self, rng: &mut Rng, tier: Tier, _run: u64) -> Value {
        let huge = rng.chance(if tier == Tier::Quick { 2 } else { 3 });
        let size = if huge { SizeClass::Huge } else { draw_size(rng, 0) };
        let ic = draw_ic(rng, huge);
        let face = Face::draw(rng);
        let p = match rng.below(10) {
            0 => 0,
            1 => 1,
            2 => 10,
            3 => 126,
            4 => 127,
            5 => 128,
            6 => 4096,
            _ => rng.log_range(1, 200_000),
        };
        let beyond = if rng.chance(50) { rng.log_range(1, 100_000) as u32 } else { 0 };
        to_value(&StartCase { a: draw_archive(rng, size, ic), face, p, beyond, pol: Policy::draw(rng, face == Face::Async), scramble: rng.next_u64() })
    }
    fn execute(&self, case: &Value, ctx: &mut Ctx) -> V<()> {
        let c: StartCase = from_value(case);
        ctx.evals += 1;
        if c.p > 0 {
            ctx.sig(case_sig(case));
        }
        // reference: same archive, same face, position 0, fresh stream
        let reference = {
            let pm = sut::build(&c.a)?;
            let mut d = SimDisk::new(Vec::new(), &Policy::plain());
            pmtiles2::verif::set_scramble_seed(Some(c.scramble));
            let r = sut::save(pm, &mut d, c.face);
            pmtiles2::verif::set_scramble_seed(None);
            if let Err(e) = r? {
                vio!("C18:save-failed", "reference write at position 0 failed: {e}");
            }
            let end = d.pos() as usize;
            let img = d.image();
            ensure!(end <= img.len(), "C18:final-position", "writer at position 0 ends at {end} beyond the {} bytes written", img.len());
            img[..end].to_vec()
        };
        let len = reference.len();
        let p = c.p as usize;
        let mut pre: Vec<u8> = vec![0xA5; p];
        let mut old = vec![0u8; c.beyond as usize];
        Rng::new(c.scramble ^ 0x01d).fill(&mut old);
        pre.extend_from_slice(&old);
        let pm = sut::build(&c.a)?;
        let mut d = SimDisk::new(pre, &c.pol).at(c.p);
        pmtiles2::verif::set_scramble_seed(Some(c.scramble));
        let r = sut::save(pm, &mut d, c.face);
        pmtiles2::verif::set_scramble_seed(None);
        ctx.absorb(&d);
        if let Err(e) = r? {
            vio!("C18:save-failed", "writing at start position {p} failed: {e}");
        }
        let img = d.image();
        ensure!(img.len() >= p && img[..p].iter().all(|b| *b == 0xA5), "C18:bytes-before-start-clobbered", "bytes before the start position {p} were modified (first difference at {:?})", img.iter().take(p).position(|b| *b != 0xA5));
        ensure!(img.len() >= p + len, "C18:archive-short", "stream holds {} bytes from position {p}; the archive is {len} bytes", img.len().saturating_sub(p));
        if img[p..p + len] != reference[..] {
            let at = img[p..p + len].iter().zip(&reference).position(|(a, b)| a != b);
            vio!("C18:not-position-independent", "archive written at position {p} differs from the one written at position 0 (first difference at relative offset {:?}): header offsets are not relative to the start", at);
        }
        ensure!(d.pos() == (p + len) as u64, "C18:final-position", "stream left at {} instead of the archive's end {}", d.pos(), p + len);
        // reading the bytes from P on yields the archive
        let model = Model::of(&c.a);
        let mut pm2 = match sut::open(SimDisk::new(img[p..].to_vec(), &Policy::plain()), Face::Sync)? {
            Ok(pm) => pm,
            Err(e) => vio!("C18:reopen-failed", "reading the stream from position {p} does not yield an archive: {e}"),
        };
        let ids = sut::ids_sorted(&pm2);
        ensure!(ids.iter().copied().eq(model.tiles.keys().copied()), "C18:reopen-ids", "archive read from position {p} lists {} ids, {} were added", ids.len(), model.tiles.len());
        let step = (ids.len() / 100).max(1);
        for id in ids.iter().step_by(step) {
            let got = sut::get(&mut pm2, *id, Face::Sync)?;
            ensure!(matches!(&got, Ok(Some(b)) if Some(b) == model.tiles.get(id)), "C18:reopen-bytes", "archive read from position {p}: wrong bytes for tile {id}");
        }
        Ok(())
    }
    fn shrink(&self, case: &Value) -> Vec<Value> {
        let c: StartCase = from_value(case);
        let mut out: Vec<Value> = shrink_archive(&c.a).into_iter().map(|a| to_value(&StartCase { a, ..c.clone() })).collect();
        for p in shrink_policy(&c.pol) {
            out.push(to_value(&StartCase { pol: p, ..c.clone() }));
        }
        if c.face == Face::Async {
            out.push(to_value(&StartCase { face: Face::Sync, ..c.clone() }));
        }
        if c.beyond > 0 {
            out.push(to_value(&StartCase { beyond: 0, ..c.clone() }));
        }
        for p in [1u64, 10, c.p / 2] {
            if p < c.p && p > 0 {
                out.push(to_value(&StartCase { p, ..c.clone() }));
            }
        }
        out
    }
}

// ---------------------------------------------------------------------------------------------
// C16

#[derive(Clone, Debug, Serialize, Deserialize)]
pub struct CanonCase {
    pub a: Archive,
    pub face: Face,
    pub perm: u64,
    /// history B saves + reopens after this many of its tiles (None = never)
    pub mid_save: Option<u32>,
    pub detours: u32,
    pub sched: Sched,
    /// also ask a second OS process for the digest of history A
    pub cross_process: bool,
    /// history A runs with the natural (per-process random) hash order instead of a sim-chosen one
    pub natural_order: bool,
}

pub struct Canonical;

fn save_bytes(pm: sut::Pm, face: Face, pol: &Policy, scramble: Option<u64>, ctx: &mut Ctx) -> V<Vec<u8>> {
    let mut d = SimDisk::new(Vec::new(), pol);
    pmtiles2::verif::set_scramble_seed(scramble);
    let r = sut::save(pm, &mut d, face);
    pmtiles2::verif::set_scramble_seed(None);
    ctx.absorb(&d);
    if let Err(e) = r? {
        vio!("C16:save-failed", "writing a valid archive failed: {e}");
    }
    let end = d.pos() as usize;
    let img = d.image();
    Ok(img[..end.min(img.len())].to_vec())
}

/// History A: the tiles in list order.
pub fn history_a_bytes(c: &CanonCase, scramble: Option<u64>, ctx: &mut Ctx) -> V<Vec<u8>> {
    let pm = sut::build(&c.a)?;
    save_bytes(pm, c.face, &Policy::plain(), scramble, ctx)
}

impl Scenario for Canonical {
    fn name(&self) -> &'static str {
        "canonical-bytes"
    }
    fn rule(&self) -> String {
        "a logical archive is produced by history A (list order) and history B (permuted order with add-then-replace, add-then-remove and duplicate-add detours and an optional save+restart+reopen in the middle, so part of the tiles are reader-backed); each save sees a different simulator-chosen hash iteration order (hook H2) or the process's natural order; a sample of runs is recomputed in a second OS process; finally the read-back archive is re-written; distinct = distinct serialized cases; non-trivial = at least two tiles".into()
    }
    fn generate(&self, rng: &mut Rng, tier: Tier, run: u64) -> Value {
        let huge = rng.chance(1);
        // one archive with more than 2^18 distinct contents per batch (run 0), a few more at random
        let gigantic = run == 0 || rng.below(5000) == 0;
        let size = if gigantic { SizeClass::Gigantic } else if huge { SizeClass::Huge } else { draw_size(rng, 0) };
        let ic = if gigantic { *rng.pick(&[1u8, 2, 4]) } else { draw_ic(rng, huge) };
        let a = draw_archive(rng, size, ic);
        let n = if a.gen.is_some() { 300_000 } else { a.tiles.len() as u32 };
        let every = if tier == Tier::Quick { 60 } else { 400 };
        to_value(&CanonCase {
            a,
            face: Face::draw(rng),
            perm: rng.next_u64(),
            mid_save: if rng.chance(50) && n > 0 { Some(rng.below(u64::from(n) + 1) as u32) } else { None },
            detours: rng.below(6) as u32,
            sched: Sched::draw(rng, Face::Async, Face::Async),
            cross_process: run % every == 0,
            natural_order: rng.chance(25),
        })
    }
    fn execute(&self, case: &Value, ctx: &mut Ctx) -> V<()> {
        let mut c: CanonCase = from_value(case);
        c.a.materialise();
        ctx.evals += 1;
        let model = Model::of(&c.a);
        if model.tiles.len() >= 2 {
            ctx.sig(case_sig(case));
        }
        let mut r = Rng::new(c.perm);
        let bytes_a = history_a_bytes(&c, if c.natural_order { None } else { Some(r.next_u64()) }, ctx)?;
        if c.natural_order {
            ctx.bump("saves_with_natural_hash_order", 1);
        }

        // history B
        let mut final_tiles: Vec<Tile> = model.tiles.keys().map(|id| Tile { id: *id, c: c.a.tiles.iter().rev().find(|t| t.id == *id).unwrap().c }).collect();
        r.shuffle(&mut final_tiles);
        let mut pm: sut::Pm = pmtiles2::PMTiles::default();
        sut::apply_settings(&mut pm, &c.a.set);
        pm.meta_data = c.a.meta.map();
        let mut detours_left = c.detours;
        for (i, t) in final_tiles.iter().enumerate() {
            if c.mid_save == Some(i as u32) {
                // an extra tile below every final id: stored first in the intermediate archive,
                // removed again after the reopen (a detour that also sets up the fault below)
                let min_before = final_tiles[..i].iter().map(|t| t.id).min();
                let extra = match (min_before, model.tiles.keys().next()) {
                    (Some(_), Some(&m)) if m > 0 && c.detours > 0 => Some(m - 1),
                    _ => None,
                };
                if let Some(e) = extra {
                    let _ = pm.add_tile(e, vec![0xE7u8; 7]);
                }
                let img = save_bytes(pm, if r.chance(50) { Face::Sync } else { Face::Async }, &c.sched.w, Some(r.next_u64()), ctx)?;
                let rdisk = SimDisk::new(img, &c.sched.r);
                let rh = rdisk.clone();
                pm = match sut::open(rdisk, Face::Sync)? {
                    Ok(p) => p,
                    Err(e) => vio!("C16:reopen-failed", "intermediate archive does not open: {e}"),
                };
                ctx.bump("probe_histories_with_reader_backed_tiles", 1);
                if let (Some(e), Some(s)) = (extra, min_before) {
                    // lookups in the middle of the history, one of them hit by a transient
                    // stream failure; they must leave no trace in what is written later
                    let _ = sut::get(&mut pm, e, Face::Sync)?;
                    rh.set_fault(crate::disk::Fault::Transient { at: rh.nops() + 1 + r.below(2), n: 1 });
                    let _ = sut::get(&mut pm, s, Face::Sync)?;
                    rh.set_fault(crate::disk::Fault::None);
                    pm.remove_tile(e);
                    ctx.bump("fired_transient_timeouts", 1);
                }
            }
            if detours_left > 0 && r.chance(40) {
                detours_left -= 1;
                match r.below(3) {
                    0 => {
                        // add-then-replace
                        let _ = pm.add_tile(t.id, Cont { k: 0, seed: r.next_u64() as u32, len: 1 + r.below(30) as u32 }.bytes());
                    }
                    1 => {
                        // add-then-remove of an id that is not part of the final state
                        let extra = loop {
                            let e = r.below(1 << 40);
                            if !model.tiles.contains_key(&e) {
                                break e;
                            }
                        };
                        let _ = pm.add_tile(extra, t.c.bytes());
                        pm.remove_tile(extra);
                    }
                    _ => {
                        // duplicate add
                        let _ = pm.add_tile(t.id, t.c.bytes());
                    }
                }
            }
            let ok = sut::guard("add_tile", || pm.add_tile(t.id, t.c.bytes()))?;
            ensure!(ok.is_ok(), "C16:add-failed", "add_tile failed");
        }
        // final saves use a plain schedule: schedule-independence is C13's concern, not this one's
        let bytes_b = save_bytes(pm, c.face, &Policy::plain(), Some(r.next_u64()), ctx)?;
        if bytes_a != bytes_b {
            let at = bytes_a.iter().zip(&bytes_b).position(|(x, y)| x != y);
            vio!("C16:history-dependent-bytes", "two histories reaching the same logical archive serialise differently: {} vs {} bytes, first difference at {:?}", bytes_a.len(), bytes_b.len(), at);
        }
        // re-writing the archive that was just read back reproduces the bytes
        let back = match sut::open(SimDisk::new(bytes_a.clone(), &c.sched.r), Face::Sync)? {
            Ok(p) => p,
            Err(e) => vio!("C16:reopen-failed", "written archive does not open: {e}"),
        };
        let bytes_c = save_bytes(back, c.face, &Policy::plain(), Some(r.next_u64()), ctx)?;
        if bytes_c != bytes_a {
            let at = bytes_a.iter().zip(&bytes_c).position(|(x, y)| x != y);
            vio!("C16:rewrite-not-idempotent", "writing the archive that was just read back gives different bytes: {} vs {} bytes, first difference at {:?}", bytes_c.len(), bytes_a.len(), at);
        }
        // another OS process (fresh hash keys, natural iteration order)
        let case_text = case.to_string();
        if c.cross_process && case_text.len() < 100_000 && c.a.gen.is_none() {
            let digest = format!("{:016x}", hash_bytes(bytes_a.len() as u64, &bytes_a));
            let exe = std::env::current_exe().map_err(|e| sut::Violation::new("harness", e.to_string())).unwrap();
            let out = std::process::Command::new(exe).arg("canon-digest").arg(&case_text).output();
            match out {
                Ok(o) if o.status.success() => {
                    let child = String::from_utf8_lossy(&o.stdout).trim().to_string();
                    ensure!(child == digest, "C16:process-dependent-bytes", "a second OS process serialises the same archive to different bytes (digest {child} vs {digest})");
                    ctx.bump("cross_process_comparisons", 1);
                }
                Ok(o) => panic!("harness: canon-digest child failed: {}", String::from_utf8_lossy(&o.stderr)),
                Err(e) => panic!("harness: cannot spawn canon-digest child: {e}"),
            }
        }
        Ok(())
    }
    fn shrink(&self, case: &Value) -> Vec<Value> {
        let c: CanonCase = from_value(case);
        let mut out: Vec<Value> = shrink_archive(&c.a).into_iter().map(|a| to_value(&CanonCase { a, ..c.clone() })).collect();
        if c.mid_save.is_some() {
            out.push(to_value(&CanonCase { mid_save: None, ..c.clone() }));
        }
        if c.detours > 0 {
            out.push(to_value(&CanonCase { detours: 0, ..c.clone() }));
        }
        if c.face == Face::Async {
            out.push(to_value(&CanonCase { face: Face::Sync, ..c.clone() }));
        }
        for w in shrink_policy(&c.sched.w) {
            out.push(to_value(&CanonCase { sched: Sched { w, r: c.sched.r.clone() }, ..c.clone() }));
        }
        for r in shrink_policy(&c.sched.r) {
            out.push(to_value(&CanonCase { sched: Sched { w: c.sched.w.clone(), r }, ..c.clone() }));
        }
        out
    }
}

/// Child-process entry: prints the digest of history A's bytes under the natural hash order.
pub fn canon_digest_main(case_json: &str) -> i32 {
    let Ok(v) = serde_json::from_str::<Value>(case_json) else {
        eprintln!("bad case json");
        return 2;
    };
    let mut c: CanonCase = from_value(&v);
    c.a.materialise();
    let mut ctx = Ctx::default();
    match history_a_bytes(&c, None, &mut ctx) {
        Ok(b) => {
            println!("{:016x}", hash_bytes(b.len() as u64, &b));
            0
        }
        Err(e) => {
            eprintln!("{}: {}", e.class, e.detail);
            2
        }
    }
}

// ---------------------------------------------------------------------------------------------
// C16: tiles living in a backing archive laid out by another writer vs the same tiles in memory

#[derive(Clone, Debug, Serialize, Deserialize)]
pub struct CanonForeignCase {
    pub src: crate::scen_foreign::ImageSrc,
    pub face: Face,
    pub r: Policy,
    pub perm: u64,
}

pub struct CanonicalForeign;

impl Scenario for CanonicalForeign {
    fn name(&self) -> &'static str {
        "canonical-foreign-backing"
    }
    fn rule(&self) -> String {
        "an archive laid out by the independent spec-level writer (shared, prefix-sharing and unordered tile offsets, leaf trees, gaps) is opened three times: written as opened (every tile reader-backed), with every tile re-added from memory, and with a random half re-added; the three outputs must be byte-identical, and writing the read-back output once more reproduces it; distinct = distinct serialized cases; non-trivial = at least two tiles".into()
    }
    fn generate(&self, rng: &mut Rng, _tier: Tier, _run: u64) -> Value {
        let face = Face::draw(rng);
        let big = rng.chance(1);
        to_value(&CanonForeignCase { src: crate::scen_foreign::ImageSrc::Foreign(crate::scen_foreign::draw_foreign(rng, big)), face, r: Policy::draw(rng, face == Face::Async), perm: rng.next_u64() })
    }
    fn execute(&self, case: &Value, ctx: &mut Ctx) -> V<()> {
        let c: CanonForeignCase = from_value(case);
        let img = c.src.materialise(ctx, "C16")?;
        ctx.evals += 1;
        if img.expected.len() >= 2 {
            ctx.sig(case_sig(case));
        }
        let mut r = Rng::new(c.perm);
        let mut outs: Vec<Vec<u8>> = Vec::new();
        for variant in 0..3u8 {
            let mut pm = match sut::open(SimDisk::new(img.image.clone(), &c.r), c.face)? {
                Ok(p) => p,
                Err(e) => vio!("C16:open-failed", "a spec-valid archive does not open: {e}"),
            };
            if variant > 0 {
                let mut ids: Vec<u64> = img.expected.keys().copied().collect();
                r.shuffle(&mut ids);
                for id in ids {
                    if variant == 1 || r.chance(50) {
                        let bytes = img.expected[&id].clone();
                        let ok = sut::guard("add_tile", || pm.add_tile(id, bytes))?;
                        ensure!(ok.is_ok(), "C16:add-failed", "add_tile failed");
                    }
                }
            }
            outs.push(save_bytes(pm, c.face, &Policy::plain(), Some(r.next_u64()), ctx)?);
        }
        let names = ["every tile in the backing archive", "every tile in memory", "half of the tiles in memory"];
        for v in 1..3 {
            if outs[v] != outs[0] {
                let at = outs[0].iter().zip(&outs[v]).position(|(x, y)| x != y);
                vio!("C16:backing-dependent-bytes", "the same logical archive serialises differently with {} ({} bytes) and with {} ({} bytes), first difference at {:?}", names[0], outs[0].len(), names[v], outs[v].len(), at);
            }
        }
        let back = match sut::open(SimDisk::new(outs[0].clone(), &c.r), c.face)? {
            Ok(p) => p,
            Err(e) => vio!("C16:reopen-failed", "written archive does not open: {e}"),
        };
        let again = save_bytes(back, c.face, &Policy::plain(), Some(r.next_u64()), ctx)?;
        ensure!(again == outs[0], "C16:rewrite-not-idempotent", "writing the archive that was just read back gives different bytes: {} vs {} bytes", again.len(), outs[0].len());
        ctx.bump("foreign_backed_archives_compared", 1);
        Ok(())
    }
    fn shrink(&self, case: &Value) -> Vec<Value> {
        let c: CanonForeignCase = from_value(case);
        let mut out: Vec<Value> = c.src.shrink().into_iter().map(|s| to_value(&CanonForeignCase { src: s, ..c.clone() })).collect();
        for p in shrink_policy(&c.r) {
            out.push(to_value(&CanonForeignCase { r: p, ..c.clone() }));
        }
        if c.face == Face::Async {
            out.push(to_value(&CanonForeignCase { face: Face::Sync, ..c.clone() }));
        }
        out
    }
}
