//! Global allocator wrapper: refuses any single request above a cap, so that "entry count 2^40
//! used as a capacity" aborts deterministically instead of depending on the machine's overcommit
//! policy. 8 GiB is above anything the format can legitimately need in one object.

use std::alloc::{GlobalAlloc, Layout, System};
use std::sync::atomic::{AtomicU64, AtomicUsize, Ordering};

pub struct CapAlloc;

pub const DEFAULT_CAP: usize = 8 << 30;
static CAP: AtomicUsize = AtomicUsize::new(DEFAULT_CAP);
static REFUSED: AtomicU64 = AtomicU64::new(0);
static LARGEST: AtomicUsize = AtomicUsize::new(0);

pub fn refused() -> u64 {
    REFUSED.load(Ordering::Relaxed)
}
pub fn largest_request() -> usize {
    LARGEST.load(Ordering::Relaxed)
}

fn check(size: usize) -> bool {
    if size > (1 << 20) {
        LARGEST.fetch_max(size, Ordering::Relaxed);
    }
    if size > CAP.load(Ordering::Relaxed) {
        REFUSED.fetch_add(1, Ordering::Relaxed);
        use std::io::Write;
        let _ = std::io::stderr().write_all(b"pmtsim: refused absurd allocation request\n");
        return false;
    }
    true
}

unsafe impl GlobalAlloc for CapAlloc {
    unsafe fn alloc(&self, l: Layout) -> *mut u8 {
        if !check(l.size()) {
            return std::ptr::null_mut();
        }
        System.alloc(l)
    }
    unsafe fn alloc_zeroed(&self, l: Layout) -> *mut u8 {
        if !check(l.size()) {
            return std::ptr::null_mut();
        }
        System.alloc_zeroed(l)
    }
    unsafe fn realloc(&self, p: *mut u8, l: Layout, new_size: usize) -> *mut u8 {
        if !check(new_size) {
            return std::ptr::null_mut();
        }
        System.realloc(p, l, new_size)
    }
    unsafe fn dealloc(&self, p: *mut u8, l: Layout) {
        System.dealloc(p, l);
    }
}
