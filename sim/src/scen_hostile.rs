//! C08: stored bytes that are not what a writer wrote. Faults are corruption at rest and
//! truncation at an arbitrary point; every reader entry point, every lookup, partial open and
//! re-write on the result must *return*. Runs in child processes (abort / stack overflow kill
//! the process); panics are caught in-process.

use std::collections::HashSet;

use pmtiles2::{Directory, Header, PMTiles};
use serde::{Deserialize, Serialize};
use serde_json::Value;

use crate::case::{Archive, Cont, Face, Meta, RangeSpec, Bnd, Sched, Settings, Tile};
use crate::disk::{Pend, Policy, SimDisk, Xfer};
use crate::rng::{hash_bytes, Rng};
use crate::scen::{case_sig, from_value, to_value, Ctx, Scenario, Tier};
use crate::scen_foreign::{materialise_foreign, FEntry, ForeignSpec};
use crate::spec::{self, Layout, SpecEntry, SpecHeader};
use crate::sut::{self, V};

#[derive(Clone, Debug, Serialize, Deserialize)]
pub enum HostileCase {
    Crafted { id: u32 },
    Prefix { base: u32, len: u32 },
    Subst { base: u32, at: u32, val: u8 },
    Mutate { base: u32, seed: u64, n: u8 },
}

pub const SUBST_VALUES: [u8; 5] = [0x00, 0x01, 0x7F, 0x80, 0xFF];
pub const N_SMALL_BASES: u32 = 24;
pub const N_BASES: u32 = 28;

// ---------------------------------------------------------------------------------------------
// base archives

fn small_foreign(i: u32, ic: u8, levels: u8) -> Vec<u8> {
    let mut r = Rng::new(0xBA5E ^ u64::from(i));
    let contents: Vec<Cont> = (0..4).map(|k| Cont { k: 0, seed: 100 + k, len: 1 + r.below(6) as u32 }).collect();
    let mut entries = Vec::new();
    let mut id = r.below(4);
    for _ in 0..4 + r.below(6) {
        let run = if r.chance(25) { 2 + r.below(3) as u32 } else { 1 };
        entries.push(FEntry { id, run, c: r.below(4) as u32 });
        id += u64::from(run) + r.below(40);
    }
    let f = ForeignSpec {
        entries,
        contents,
        placement: (i % 3) as u8,
        layout: Layout { order: [0, 1, 2, 3], gaps: [0, 0, 0, 0, 0], ic, levels, fanout: 2, mixed: false, shuffle_leaves: false, empty_meta: i % 5 == 0, seed: u64::from(i), loose_ptr: false, kind_coincidence: false, strength: 0, unknown_counters: 0 },
        set: Settings::plain(ic),
        stored: [-1_800_000_000, -850_000_000, 1_800_000_000, 850_000_000, 21, -21],
        meta: Meta { kind: 1, seed: 5, n: 1 },
    };
    materialise_foreign(&f).expect("base foreign archive").image
}

fn crate_written(i: u32, ic: u8, face: Face, big: bool) -> Vec<u8> {
    let mut r = Rng::new(0xC4A7E ^ u64::from(i));
    let mut tiles = Vec::new();
    if big {
        let mut id = 0u64;
        for _ in 0..7000 {
            id += 1 + r.log_range(1, 1 << 20);
            tiles.push(Tile { id, c: Cont { k: 0, seed: r.next_u64() as u32, len: 1 + r.below(20) as u32 } });
        }
    } else {
        for k in 0..3 + r.below(5) {
            tiles.push(Tile { id: k * 2 + r.below(2), c: Cont { k: 0, seed: (k % 3) as u32, len: 1 + (k % 4) as u32 } });
        }
    }
    let a = Archive { tiles, meta: Meta { kind: 1, seed: 9, n: 1 }, set: Settings::plain(ic), gen: None };
    let mut ctx = Ctx::default();
    crate::scen_life::write_archive(&a, face, &Sched::plain(), 1, &mut ctx, "C08").expect("base archive written by the crate")
}

pub fn base_archive(i: u32) -> std::sync::Arc<Vec<u8>> {
    static CACHE: std::sync::Mutex<Option<std::collections::HashMap<u32, std::sync::Arc<Vec<u8>>>>> = std::sync::Mutex::new(None);
    if let Some(v) = CACHE.lock().unwrap().get_or_insert_with(Default::default).get(&i) {
        return v.clone();
    }
    let v = std::sync::Arc::new(build_base_archive(i));
    CACHE.lock().unwrap().get_or_insert_with(Default::default).insert(i, v.clone());
    v
}

fn build_base_archive(i: u32) -> Vec<u8> {
    let ic = 1 + (i % 4) as u8;
    match i {
        0..=7 => small_foreign(i, ic, 0),
        8..=15 => small_foreign(i, ic, 1),
        16..=19 => crate_written(i, ic, Face::Sync, false),
        20..=23 => crate_written(i, ic, Face::Async, false),
        _ => crate_written(i, ic, if i % 2 == 0 { Face::Sync } else { Face::Async }, true),
    }
}

// ---------------------------------------------------------------------------------------------
// decomposition / recomposition

#[derive(Clone, Debug)]
struct Cols {
    count: u64,
    deltas: Vec<u64>,
    runs: Vec<u64>,
    lens: Vec<u64>,
    offs: Vec<u64>,
}

impl Cols {
    fn of(es: &[SpecEntry]) -> Cols {
        let mut c = Cols { count: es.len() as u64, deltas: vec![], runs: vec![], lens: vec![], offs: vec![] };
        let mut last = 0u64;
        for (i, e) in es.iter().enumerate() {
            c.deltas.push(e.tile_id.wrapping_sub(last));
            last = e.tile_id;
            c.runs.push(u64::from(e.run_length));
            c.lens.push(u64::from(e.length));
            if i > 0 && e.offset == es[i - 1].offset + u64::from(es[i - 1].length) {
                c.offs.push(0);
            } else {
                c.offs.push(e.offset + 1);
            }
        }
        c
    }
    fn bytes(&self) -> Vec<u8> {
        spec::encode_dir_raw(self.count, &self.deltas, &self.runs, &self.lens, &self.offs)
    }
}

struct Parts {
    h: SpecHeader,
    root: Vec<SpecEntry>,
    meta: Vec<u8>,
    leaves: Vec<u8>,
    data: Vec<u8>,
}

fn split(img: &[u8]) -> Parts {
    let h = spec::parse_header(img).expect("valid base");
    let sl = |o: u64, l: u64| img[o as usize..(o + l) as usize].to_vec();
    let root = spec::read_dir_at(img, h.ic, h.root_offset, h.root_length).expect("valid base root");
    Parts { root, meta: sl(h.meta_offset, h.meta_length), leaves: sl(h.leaf_offset, h.leaf_length), data: sl(h.data_offset, h.data_length), h }
}

fn join(p: &Parts, root_bytes: &[u8], meta: &[u8], leaves: &[u8], data: &[u8], tweak: impl FnOnce(&mut SpecHeader)) -> Vec<u8> {
    let mut h = p.h.clone();
    h.root_offset = 127;
    h.root_length = root_bytes.len() as u64;
    h.meta_offset = 127 + h.root_length;
    h.meta_length = meta.len() as u64;
    h.leaf_offset = h.meta_offset + h.meta_length;
    h.leaf_length = leaves.len() as u64;
    h.data_offset = h.leaf_offset + h.leaf_length;
    h.data_length = data.len() as u64;
    tweak(&mut h);
    let mut img = spec::encode_header(&h).to_vec();
    img.extend_from_slice(root_bytes);
    img.extend_from_slice(meta);
    img.extend_from_slice(leaves);
    img.extend_from_slice(data);
    img
}

fn boundary(r: &mut Rng, len: u64) -> u64 {
    match r.below(16) {
        0 => 0,
        1 => 1,
        2 => 126,
        3 => 127,
        4 => 128,
        5 => len.wrapping_sub(1),
        6 => len,
        7 => len.wrapping_add(1),
        8 => 1 << 31,
        9 => (1 << 32) - 1,
        10 => 1 << 32,
        11 => 1 << 63,
        12 => u64::MAX,
        13 => u64::MAX.wrapping_sub(len),
        14 => u64::MAX - 1,
        _ => r.next_u64() >> r.below(64),
    }
}

fn mutate_cols(c: &mut Cols, r: &mut Rng) {
    match r.below(9) {
        0 => c.count = boundary(r, c.count),
        1 if !c.deltas.is_empty() => {
            let i = r.usize_below(c.deltas.len());
            c.deltas[i] = boundary(r, 0);
        }
        2 if !c.runs.is_empty() => {
            let i = r.usize_below(c.runs.len());
            c.runs[i] = boundary(r, 0);
        }
        3 if !c.lens.is_empty() => {
            let i = r.usize_below(c.lens.len());
            c.lens[i] = boundary(r, 0);
        }
        4 if !c.offs.is_empty() => {
            let i = r.usize_below(c.offs.len());
            c.offs[i] = boundary(r, 0);
        }
        5 => std::mem::swap(&mut c.runs, &mut c.lens),
        6 => std::mem::swap(&mut c.deltas, &mut c.offs),
        7 => {
            // drop one column value (columns become misaligned)
            if !c.lens.is_empty() {
                c.lens.pop();
            }
        }
        _ => c.count = c.count.wrapping_add(1 + r.below(3)),
    }
}

fn mutate(base: &[u8], seed: u64, n: u8) -> Vec<u8> {
    let mut r = Rng::new(seed);
    let p = split(base);
    let ic = p.h.ic;
    let mut img = base.to_vec();
    for _ in 0..n.max(1) {
        let len = img.len() as u64;
        match r.below(12) {
            0..=3 => {
                // directory field → boundary value, re-encoded and recompressed
                let mut c = Cols::of(&p.root);
                mutate_cols(&mut c, &mut r);
                if r.chance(30) {
                    mutate_cols(&mut c, &mut r);
                }
                let root = spec::compress(ic, &c.bytes()).expect("oracle codec");
                let fix = r.chance(75);
                let old_root_len = p.h.root_length;
                img = join(&p, &root, &p.meta, &p.leaves, &p.data, |h| {
                    if !fix {
                        h.root_length = old_root_len;
                    }
                });
            }
            4 | 5 => {
                // header field → boundary value
                let mut h = spec::parse_header(&img).unwrap_or_else(|_| p.h.clone());
                let v = boundary(&mut r, len);
                match r.below(14) {
                    0 => h.root_offset = v,
                    1 => h.root_length = v,
                    2 => h.meta_offset = v,
                    3 => h.meta_length = v,
                    4 => h.leaf_offset = v,
                    5 => h.leaf_length = v,
                    6 => h.data_offset = v,
                    7 => h.data_length = v,
                    8 => h.n_addressed = v,
                    9 => h.n_entries = v,
                    10 => h.n_contents = v,
                    11 => h.ic = r.below(6) as u8,
                    12 => h.tc = r.next_u64() as u8,
                    _ => h.tt = r.next_u64() as u8,
                }
                if img.len() >= 127 {
                    img[..127].copy_from_slice(&spec::encode_header(&h));
                }
            }
            6 => {
                // leaf directory mutated (if there is one)
                if let Some(ptr) = p.root.iter().find(|e| e.run_length == 0) {
                    if let Ok(es) = spec::read_dir_at(base, ic, p.h.leaf_offset + ptr.offset, u64::from(ptr.length)) {
                        let mut c = Cols::of(&es);
                        mutate_cols(&mut c, &mut r);
                        let blob = spec::compress(ic, &c.bytes()).expect("oracle codec");
                        let mut root = p.root.clone();
                        for e in root.iter_mut() {
                            if e.run_length == 0 {
                                e.offset = 0;
                                e.length = blob.len() as u32;
                            }
                        }
                        let rootb = spec::compress(ic, &spec::encode_dir(&root)).expect("oracle codec");
                        img = join(&p, &rootb, &p.meta, &blob, &p.data, |_| {});
                    }
                }
            }
            7 => {
                // pointer games: make a leaf pointer refer to the root itself / to nowhere
                let mut root = p.root.clone();
                if root.is_empty() {
                    root.push(SpecEntry { tile_id: 0, offset: 0, length: 1, run_length: 0 });
                }
                let i = r.usize_below(root.len());
                root[i].run_length = 0;
                root[i].offset = boundary(&mut r, len);
                let rootb = spec::compress(ic, &spec::encode_dir(&root)).expect("oracle codec");
                let l = rootb.len() as u32;
                let self_ref = r.chance(50);
                if self_ref {
                    root[i].offset = 0;
                    root[i].length = l;
                }
                let rootb = spec::compress(ic, &spec::encode_dir(&root)).expect("oracle codec");
                img = join(&p, &rootb, &p.meta, &p.leaves, &p.data, |h| {
                    if self_ref {
                        h.leaf_offset = h.root_offset;
                    }
                });
            }
            8 => {
                // metadata games
                let m: Vec<u8> = match r.below(4) {
                    0 => spec::compress(ic, b"[1,2").unwrap_or_default(),
                    1 => spec::compress(1 + (ic % 4), b"{}").unwrap_or_default(),
                    2 => {
                        let mut z = spec::compress(ic, b"{\"a\":[1,2,3,4,5,6,7,8,9]}").unwrap_or_default();
                        z.truncate(z.len() / 2);
                        z
                    }
                    _ => b"\xff\xfe\x00garbage".to_vec(),
                };
                let rootb = spec::compress(ic, &spec::encode_dir(&p.root)).expect("oracle codec");
                img = join(&p, &rootb, &m, &p.leaves, &p.data, |_| {});
            }
            9 => {
                let cut = r.usize_below(img.len() + 1);
                img.truncate(cut);
            }
            _ => {
                for _ in 0..1 + r.below(3) {
                    if !img.is_empty() {
                        let i = r.usize_below(img.len());
                        img[i] = match r.below(3) {
                            0 => img[i] ^ (1 << r.below(8)),
                            1 => *r.pick(&SUBST_VALUES),
                            _ => r.next_u64() as u8,
                        };
                    }
                }
            }
        }
    }
    img
}

// ---------------------------------------------------------------------------------------------
// crafted corpus: one archive per hazard class × codec

pub const N_HAZARDS: u32 = 36;

fn one_tile_parts(ic: u8) -> Parts {
    let h = SpecHeader { ic, tc: 1, tt: 1, clustered: 1, n_addressed: 1, n_entries: 1, n_contents: 1, ..SpecHeader::default() };
    Parts { h, root: vec![SpecEntry { tile_id: 3, offset: 0, length: 4, run_length: 1 }], meta: spec::compress(ic, b"{}").unwrap(), leaves: vec![], data: vec![1, 2, 3, 4] }
}

fn dir_blob(ic: u8, c: &Cols) -> Vec<u8> {
    spec::compress(ic, &c.bytes()).expect("oracle codec")
}

pub fn crafted(id: u32) -> (String, Vec<u8>) {
    let ic = 1 + (id % 4) as u8;
    let hz = id / 4;
    let p = one_tile_parts(ic);
    let plain_root = spec::compress(ic, &spec::encode_dir(&p.root)).unwrap();
    let with_root = |c: Cols| join(&p, &dir_blob(ic, &c), &p.meta, &p.leaves, &p.data, |_| {});
    let base_cols = Cols::of(&p.root);
    let (name, img): (&str, Vec<u8>) = match hz {
        0 => ("entry count 2^31", with_root(Cols { count: 1 << 31, ..base_cols })),
        1 => ("entry count 2^40", with_root(Cols { count: 1 << 40, ..base_cols })),
        2 => ("entry count 2^60", with_root(Cols { count: 1 << 60, ..base_cols })),
        3 => ("entry count 2^63", with_root(Cols { count: 1 << 63, ..base_cols })),
        4 => ("entry count 2^64-1", with_root(Cols { count: u64::MAX, ..base_cols })),
        5 => ("tile id deltas whose sum wraps", with_root(Cols { count: 3, deltas: vec![1 << 63, 1 << 63, 5], runs: vec![1, 1, 1], lens: vec![1, 1, 1], offs: vec![1, 0, 0] })),
        6 => ("first offset 0", with_root(Cols { count: 1, deltas: vec![3], runs: vec![1], lens: vec![4], offs: vec![0] })),
        7 => ("contiguous offset whose sum wraps", with_root(Cols { count: 2, deltas: vec![3, 1], runs: vec![1, 1], lens: vec![(1 << 32) - 1, 1], offs: vec![u64::MAX, 0] })),
        8 => ("tile data offset near 2^64", join(&p, &plain_root, &p.meta, &p.leaves, &p.data, |h| h.data_offset = u64::MAX - 1)),
        9 => {
            let leaf = spec::compress(ic, &spec::encode_dir(&p.root)).unwrap();
            let root = spec::compress(ic, &spec::encode_dir(&[SpecEntry { tile_id: 3, offset: 5, length: leaf.len() as u32, run_length: 0 }])).unwrap();
            ("leaf directories offset near 2^64", join(&p, &root, &p.meta, &leaf, &p.data, |h| h.leaf_offset = u64::MAX - 1))
        }
        10 => ("metadata offset and length near 2^64", join(&p, &plain_root, &p.meta, &p.leaves, &p.data, |h| {
            h.meta_offset = u64::MAX - 1;
            h.meta_length = u64::MAX;
        })),
        11 => ("tile id + run length wraps", with_root(Cols { count: 1, deltas: vec![u64::MAX - 1], runs: vec![5], lens: vec![4], offs: vec![1] })),
        12 => {
            // root contains a pointer whose target is the root itself
            let mut l = 10u32;
            let mut root = Vec::new();
            for _ in 0..4 {
                root = spec::compress(ic, &spec::encode_dir(&[SpecEntry { tile_id: 0, offset: 0, length: l, run_length: 0 }])).unwrap();
                l = root.len() as u32;
            }
            ("leaf pointer to itself", join(&p, &root, &p.meta, &[], &p.data, |h| h.leaf_offset = h.root_offset))
        }
        13 => {
            // A -> B -> A
            let mut la = 12u32;
            let mut lb = 12u32;
            let (mut a, mut b) = (Vec::new(), Vec::new());
            for _ in 0..5 {
                a = spec::compress(ic, &spec::encode_dir(&[SpecEntry { tile_id: 0, offset: u64::from(la), length: lb, run_length: 0 }])).unwrap();
                b = spec::compress(ic, &spec::encode_dir(&[SpecEntry { tile_id: 0, offset: 0, length: la, run_length: 0 }])).unwrap();
                la = a.len() as u32;
                lb = b.len() as u32;
            }
            let mut leaves = a.clone();
            leaves.extend_from_slice(&b);
            let root = spec::compress(ic, &spec::encode_dir(&[SpecEntry { tile_id: 0, offset: 0, length: la, run_length: 0 }])).unwrap();
            ("leaf pointer 2-cycle", join(&p, &root, &p.meta, &leaves, &p.data, |_| {}))
        }
        14 | 15 => {
            let depth = if hz == 14 { 10_000 } else { 100_000 };
            let chain = build_chain(ic, &p.root, depth);
            let root = spec::compress(ic, &spec::encode_dir(&[SpecEntry { tile_id: 3, offset: chain.1, length: chain.2, run_length: 0 }])).unwrap();
            (if hz == 14 { "leaf chain of depth 10^4" } else { "leaf chain of depth 10^5" }, join(&p, &root, &p.meta, &chain.0, &p.data, |_| {}))
        }
        16 => {
            let root = spec::compress(ic, &spec::encode_dir(&[SpecEntry { tile_id: 3, offset: 1 << 40, length: 50, run_length: 0 }])).unwrap();
            ("leaf pointer outside the file", join(&p, &root, &p.meta, &p.leaves, &p.data, |_| {}))
        }
        17 => ("entry length 2^32-1 on a tiny file", with_root(Cols { count: 1, deltas: vec![3], runs: vec![1], lens: vec![(1 << 32) - 1], offs: vec![1] })),
        18 => ("metadata is not JSON", join(&p, &plain_root, &spec::compress(ic, b"not json at all").unwrap(), &p.leaves, &p.data, |_| {})),
        19 => {
            let mut m = spec::compress(ic, b"{\"key\":\"a fairly long value so that truncation bites\"}").unwrap();
            m.truncate(m.len() * 2 / 3);
            ("truncated compressed metadata", join(&p, &plain_root, &m, &p.leaves, &p.data, |_| {}))
        }
        20 => ("metadata in the wrong codec", join(&p, &plain_root, &spec::compress(1 + (ic % 4), b"{\"a\":1}").unwrap(), &p.leaves, &p.data, |_| {})),
        21 => ("root length 2^64-1", join(&p, &plain_root, &p.meta, &p.leaves, &p.data, |h| h.root_length = u64::MAX)),
        22 => ("root offset near 2^64", join(&p, &plain_root, &p.meta, &p.leaves, &p.data, |h| h.root_offset = u64::MAX - 10)),
        23 => ("run length 2^32-1 (outside the claim: declared expansion)", with_root(Cols { count: 1, deltas: vec![3], runs: vec![(1 << 32) - 1], lens: vec![4], offs: vec![1] })),
        24 => ("offset + length wraps in a tile entry", with_root(Cols { count: 1, deltas: vec![3], runs: vec![1], lens: vec![(1 << 32) - 1], offs: vec![u64::MAX] })),
        25 | 26 => {
            // a compressed stream whose own header declares an absurd decompressed size:
            // zstd frame, single segment, 8-byte content size field, one empty raw last block
            let declared: u64 = if hz == 25 { 1 << 62 } else { (1 << 40) + 12345 };
            let mut frame = vec![0x28, 0xB5, 0x2F, 0xFD, 0xE0];
            frame.extend_from_slice(&declared.to_le_bytes());
            frame.extend_from_slice(&[0x01, 0x00, 0x00]);
            // gzip: trailer ISIZE says 2^32-1 for an empty member
            let mut gz = spec::compress(2, b"").unwrap();
            let n = gz.len();
            gz[n - 4..].copy_from_slice(&u32::MAX.to_le_bytes());
            let blob = if ic == 2 { gz } else { frame };
            // as metadata, and as the (only) tile
            let mut pp = one_tile_parts(if ic == 2 { 2 } else { 4 });
            pp.data = blob.clone();
            pp.root = vec![SpecEntry { tile_id: 3, offset: 0, length: blob.len() as u32, run_length: 1 }];
            let rootb = spec::compress(pp.h.ic, &spec::encode_dir(&pp.root)).unwrap();
            ("compressed stream declaring an absurd decompressed size", join(&pp, &rootb, &blob, &[], &blob, |_| {}))
        }
        27 | 28 => {
            // non-increasing ids around a leaf pointer: [pointer@0 -> leaf, tile@0] (27) or
            // [tile@5, pointer@5 -> leaf, tile@5] (28); the leaf itself is fine
            let leaf = spec::compress(ic, &spec::encode_dir(&[SpecEntry { tile_id: 1, offset: 0, length: 4, run_length: 1 }])).unwrap();
            let ptr_len = leaf.len() as u64;
            let c = if hz == 27 {
                Cols { count: 2, deltas: vec![0, 0], runs: vec![0, 1], lens: vec![ptr_len, 4], offs: vec![1, 1] }
            } else {
                Cols { count: 3, deltas: vec![5, 0, 0], runs: vec![1, 0, 1], lens: vec![4, ptr_len, 4], offs: vec![1, 1, 1] }
            };
            ("leaf pointer next to entries with the same tile id", join(&p, &dir_blob(ic, &c), &p.meta, &leaf, &p.data, |_| {}))
        }
        29 => ("entry count 2^60 and root length 2^62", join(&p, &dir_blob(ic, &Cols { count: 1 << 60, ..Cols::of(&p.root) }), &p.meta, &p.leaves, &p.data, |h| h.root_length = 1 << 62)),
        30 => ("entry count 2^40 and root length 2^64-1", join(&p, &dir_blob(ic, &Cols { count: 1 << 40, ..Cols::of(&p.root) }), &p.meta, &p.leaves, &p.data, |h| h.root_length = u64::MAX)),
        32..=35 => {
            // an absurd entry count with more than 2^16 tile-id deltas really present (then the
            // stream ends): whatever a parser does once it has seen 2^16 genuine entries
            let (count, present) = [(1u64 << 60, 65_537usize), (1 << 63, 70_000), (u64::MAX, 65_536), (1 << 40, 131_073)][(hz - 32) as usize];
            ("absurd entry count with more than 2^16 tile-id deltas present", with_root(Cols { count, deltas: vec![1; present], runs: vec![], lens: vec![], offs: vec![] }))
        }
        31 => {
            // leaf pointer declaring a 2^32-1 byte leaf whose own entry count is 2^31
            let leaf = dir_blob(ic, &Cols { count: 1 << 31, ..Cols::of(&p.root) });
            let root = spec::compress(ic, &spec::encode_dir(&[SpecEntry { tile_id: 3, offset: 0, length: u32::MAX, run_length: 0 }])).unwrap();
            ("leaf pointer of length 2^32-1 to a leaf with entry count 2^31", join(&p, &root, &p.meta, &leaf, &p.data, |_| {}))
        }
        _ => unreachable!("hazard class {hz}"),
    };
    (format!("{name} [codec {ic}]"), img)
}

/// Leaf section holding a chain L0 → L1 → … → L(depth-1); returns (section, offset of L0, len of L0).
fn build_chain(ic: u8, last_entries: &[SpecEntry], depth: usize) -> (Vec<u8>, u64, u32) {
    // Lay the chain out back to front in the section: the LAST leaf is placed first (offset 0),
    // each earlier leaf is appended after it, so every pointer refers to an already known offset.
    let mut section: Vec<u8> = Vec::new();
    let mut blob = spec::compress(ic, &spec::encode_dir(last_entries)).unwrap();
    let mut off = 0u64;
    section.extend_from_slice(&blob);
    for _ in 1..depth {
        let e = SpecEntry { tile_id: last_entries.first().map_or(0, |e| e.tile_id), offset: off, length: blob.len() as u32, run_length: 0 };
        blob = spec::compress(ic, &spec::encode_dir(&[e])).unwrap();
        off = section.len() as u64;
        section.extend_from_slice(&blob);
    }
    (section, off, blob.len() as u32)
}

// ---------------------------------------------------------------------------------------------
// expansion measure (what the input declares), iterative with an explicit stack

#[derive(Debug, PartialEq, Eq)]
enum Claim {
    /// within the budget (or invalid in a way that needs no expansion): the crate must return
    In,
    /// declares more tiles/steps than the budget: outside the property's claim
    Out,
}

const EXPANSION_BUDGET: u64 = 1 << 20;

fn measure(img: &[u8]) -> V<Claim> {
    let Ok(h) = spec::parse_header(img) else {
        return Ok(Claim::In);
    };
    if !(1..=4).contains(&h.ic) {
        return Ok(Claim::In);
    }
    enum Item {
        Enter(u64, u64),
        Exit(u64, u64),
    }
    let mut stack = vec![Item::Enter(h.root_offset, h.root_length)];
    let mut on_path: HashSet<(u64, u64)> = HashSet::new();
    let mut steps = 0u64;
    while let Some(it) = stack.pop() {
        match it {
            Item::Exit(o, l) => {
                on_path.remove(&(o, l));
            }
            Item::Enter(o, l) => {
                steps += 1;
                if steps > EXPANSION_BUDGET {
                    return Ok(Claim::Out);
                }
                if !on_path.insert((o, l)) {
                    // a cycle: invalid input, inside the claim
                    return Ok(Claim::In);
                }
                stack.push(Item::Exit(o, l));
                // a section longer than the file (or with a length near 2^64): a reader bounded by
                // take(length) simply reads what is there up to EOF
                let end = o.saturating_add(l).min(img.len() as u64);
                if o >= end {
                    continue;
                }
                let raw = &img[o as usize..end as usize];
                // a streaming reader decodes whatever precedes a decompression error; the sync and
                // the async decoders differ in how much that is, so take whichever yields a list
                // (the one declaring more work when both do)
                let work = |es: &Vec<SpecEntry>| es.iter().map(|e| u64::from(e.run_length).max(1)).fold(0u64, u64::saturating_add);
                let a = decode_dir_generous(&spec::decompress_lenient(h.ic, raw, 64 << 20));
                let b = if h.ic == 1 { None } else { decode_dir_generous(&spec::decompress_lenient_async(h.ic, raw, 64 << 20)) };
                // further witnesses: what the crate's own parser reads out of these bytes (sync, and
                // async under one-byte reads). If the crate itself sees a directory that declares
                // huge runs, expanding them is work proportional to declared run lengths.
                let to_spec = |d: pmtiles2::Directory| -> Vec<SpecEntry> { (&d).into_iter().map(|e| SpecEntry { tile_id: e.tile_id, offset: e.offset, length: e.length, run_length: e.run_length }).collect() };
                let c = sut::guard("Directory::from_bytes", || pmtiles2::Directory::from_bytes(raw, crate::sut::comp(h.ic)))?.ok().map(to_spec);
                let d = if h.ic == 1 {
                    None
                } else {
                    let one = Policy { rd: Xfer::One, wr: Xfer::Full, pend: Pend::NEVER, seed: 0 };
                    let mut disk = SimDisk::new(raw.to_vec(), &one);
                    sut::guard_async("Directory::from_async_reader", pmtiles2::Directory::from_async_reader(&mut disk, raw.len() as u64, crate::sut::comp(h.ic)))?.ok().map(to_spec)
                };
                let mut best: Option<Vec<SpecEntry>> = None;
                for cand in [a, b, c, d].into_iter().flatten() {
                    if best.as_ref().map_or(true, |x| work(&cand) > work(x)) {
                        best = Some(cand);
                    }
                }
                let Some(es) = best else { continue };
                for e in es.iter().rev() {
                    if e.run_length == 0 {
                        if let Some(lo) = h.leaf_offset.checked_add(e.offset) {
                            stack.push(Item::Enter(lo, u64::from(e.length)));
                        }
                    } else {
                        steps += u64::from(e.run_length);
                        if steps > EXPANSION_BUDGET {
                            return Ok(Claim::Out);
                        }
                    }
                }
            }
        }
    }
    Ok(Claim::In)
}

/// Directory decoding for the claim measure only: as generous as any streaming reader could be
/// (32-bit columns keep the low 32 bits of a wider value, wrapping sums are tolerated), so that
/// "declares too much work" is never under-estimated. None = no reader could get a list out.
/// LEB128 as generously as any reader could take it: up to 10 bytes, overflowing bits dropped.
fn get_varint_generous(b: &[u8], pos: &mut usize) -> Option<u64> {
    let mut v: u64 = 0;
    for i in 0..10u32 {
        let byte = *b.get(*pos)?;
        *pos += 1;
        v |= u64::from(byte & 0x7f).checked_shl(7 * i).unwrap_or(0);
        if byte & 0x80 == 0 {
            return Some(v);
        }
    }
    None
}

fn decode_dir_generous(b: &[u8]) -> Option<Vec<SpecEntry>> {
    let mut p = 0usize;
    let n = get_varint_generous(b, &mut p)?;
    if n > (b.len() as u64) {
        return None;
    }
    let n = n as usize;
    let mut es = vec![SpecEntry { tile_id: 0, offset: 0, length: 0, run_length: 0 }; n];
    let mut last = 0u64;
    for e in es.iter_mut() {
        last = last.wrapping_add(get_varint_generous(b, &mut p)?);
        e.tile_id = last;
    }
    for e in es.iter_mut() {
        e.run_length = get_varint_generous(b, &mut p)? as u32;
    }
    for e in es.iter_mut() {
        e.length = get_varint_generous(b, &mut p)? as u32;
    }
    for i in 0..n {
        let v = get_varint_generous(b, &mut p)?;
        es[i].offset = if v == 0 && i > 0 { es[i - 1].offset.wrapping_add(u64::from(es[i - 1].length)) } else { v.wrapping_sub(1) };
    }
    Some(es)
}

// ---------------------------------------------------------------------------------------------
// the battery of calls

fn battery(img: &[u8], seed: u64, ctx: &mut Ctx) -> V<()> {
    let mut r = Rng::new(seed ^ hash_bytes(0, &img[..img.len().min(4096)]));
    // headers and directories
    let hdr = sut::guard("Header::from_bytes", || Header::from_bytes(img))?;
    let sh = spec::parse_header(img).ok();
    let ic_code = sh.as_ref().map_or(2, |h| h.ic);
    let comp = sut::comp(ic_code);
    if img.len() > 127 {
        let _ = sut::guard("Directory::from_bytes", || Directory::from_bytes(&img[127..], comp).map(|d| d.len()))?;
    }
    if let Some(h) = &sh {
        for (o, l) in [(h.root_offset, h.root_length), (h.leaf_offset, h.leaf_length), (h.meta_offset, h.meta_length)] {
            if let Some(e) = o.checked_add(l) {
                if e <= img.len() as u64 && l > 0 {
                    let sl = &img[o as usize..e as usize];
                    let d = sut::guard("Directory::from_bytes", || Directory::from_bytes(sl, comp))?;
                    if let Ok(d) = d {
                        let _ = sut::guard("find_entry_for_tile_id", || {
                            for id in [0u64, 1, u64::MAX, 1 << 40] {
                                let _ = d.find_entry_for_tile_id(id);
                            }
                        })?;
                        // the parsed directory is written back
                        let mut sink = SimDisk::plain(Vec::new());
                        let _ = sut::guard("Directory::to_writer", || d.to_writer(&mut sink, comp))?;
                    }
                    let _ = sut::guard("decompress_all", || pmtiles2::util::decompress_all(comp, sl).map(|v| v.len()))?;
                }
            }
        }
        let mut cur = std::io::Cursor::new(img);
        let _ = sut::guard("read_directories", || pmtiles2::util::read_directories(&mut cur, comp, (h.root_offset, h.root_length), h.leaf_offset, ..).map(|m| m.len()))?;
    }
    let _ = sut::guard("zxy", || {
        for id in [0u64, 1, 4, 5, u64::MAX, u64::MAX / 3, u64::MAX / 3 + 1, r.next_u64()] {
            let _ = pmtiles2::util::zxy(id);
        }
    })?;
    // archive: sync
    let opened = sut::guard("PMTiles::from_bytes", || PMTiles::from_bytes(img))?;
    ctx.bump(if opened.is_ok() { "inputs_that_open" } else { "inputs_rejected_on_open" }, 1);
    if hdr.is_ok() {
        ctx.bump("inputs_with_valid_header", 1);
    }
    if let Ok(mut pm) = opened {
        let ids = sut::guard("tile_ids", || {
            let mut v: Vec<u64> = pm.tile_ids().into_iter().copied().collect();
            v.sort_unstable();
            v
        })?;
        let _ = sut::guard("num_tiles", || pm.num_tiles())?;
        let mut probes: Vec<u64> = vec![0, u64::MAX];
        if let (Some(a), Some(b)) = (ids.first(), ids.last()) {
            probes.extend([*a, *b]);
        }
        for _ in 0..3 {
            if !ids.is_empty() {
                probes.push(ids[r.usize_below(ids.len())]);
            }
        }
        for id in &probes {
            let got = sut::guard("get_tile_by_id", || pm.get_tile_by_id(*id))?;
            // tiles are compressed payloads: hand what came back to every one-shot decoder
            if let Ok(Some(b)) = got {
                if b.len() <= 1 << 16 {
                    for cc in 1..=4u8 {
                        let _ = sut::guard("decompress_all(tile)", || pmtiles2::util::decompress_all(sut::comp(cc), &b).map(|v| v.len()))?;
                    }
                }
            }
        }
        for z in [0u8, 1, 2, 31, 32, 33, 64, 255] {
            let n = if z < 64 { 1u64 << z } else { 0 };
            for x in [0u64, n.wrapping_sub(1), n, u64::MAX] {
                for y in [0u64, n.wrapping_sub(1), n, u64::MAX] {
                    let _ = sut::guard("get_tile", || pm.get_tile(x, y, z).map(|o| o.map(|b| b.len())))?;
                }
            }
        }
        // re-write of the archive opened from such bytes
        let mut out = SimDisk::plain(Vec::new());
        let _ = sut::guard("to_writer", || pm.to_writer(&mut out))?;
        ctx.absorb(&out);
    }
    // the reader is handed in at a position P > 0 (the bytes sit behind a preamble): the header is
    // read at P, every section at its absolute offset. Only when what the reader then sees stays
    // inside the claim (measured on the stream with the header copied to its front), and for one
    // input in four
    if r.below(4) == 0 {
        let p = *r.pick(&[1usize, 7, 127, 4096]);
        let mut s = vec![0xAAu8; p];
        s.extend_from_slice(img);
        let sections_clear = sh.as_ref().is_none_or(|h| [(h.root_offset, h.root_length), (h.leaf_offset, h.leaf_length), (h.meta_offset, h.meta_length)].iter().all(|(o, l)| *l == 0 || *o >= 127));
        let inside = if sh.is_some() && s.len() >= 127 && img.len() >= 127 {
            let mut e = s.clone();
            e[..127].copy_from_slice(&img[..127]);
            sections_clear && measure(&e)? == Claim::In
        } else {
            true
        };
        if inside {
            ctx.bump("opens_from_a_reader_positioned_behind_a_preamble", 1);
            let mut cur = std::io::Cursor::new(&s[..]);
            cur.set_position(p as u64);
            if let Ok(mut pm) = sut::guard("from_reader (positioned)", || PMTiles::from_reader(cur))? {
                let _ = sut::guard("num_tiles", || pm.num_tiles())?;
                for id in [0u64, 3, u64::MAX] {
                    let _ = sut::guard("get_tile_by_id", || pm.get_tile_by_id(id).map(|o| o.map(|b| b.len())))?;
                }
                let mut out = SimDisk::plain(Vec::new());
                let _ = sut::guard("to_writer", || pm.to_writer(&mut out))?;
            }
            let pol = Policy { rd: Xfer::Random(4096), wr: Xfer::Full, pend: Pend { rate: 20, burst: 2, inline: 50, ctl: true }, seed: r.next_u64() };
            let _ = sut::guard_async("from_async_reader (positioned)", PMTiles::from_async_reader(SimDisk::new(s.clone(), &pol).at(p as u64)))?.map(|p| p.num_tiles());
        }
    }
    // partial opens
    let first = sh.as_ref().map_or(5, |h| h.n_addressed);
    for range in [RangeSpec(Bnd::Unb, Bnd::Exc(0)), RangeSpec(Bnd::Inc(5), Bnd::Exc(2)), RangeSpec(Bnd::Unb, Bnd::Inc(u64::MAX)), RangeSpec(Bnd::Exc(first), Bnd::Unb), RangeSpec(Bnd::Inc(0), Bnd::Inc(3)), RangeSpec(Bnd::Inc(1), Bnd::Unb), RangeSpec(Bnd::Inc(4), Bnd::Exc(6)), RangeSpec(Bnd::Exc(0), Bnd::Inc(u64::MAX))] {
        let _ = sut::guard("from_bytes_partially", || PMTiles::from_bytes_partially(img, range.bounds()).map(|p| p.num_tiles()))?;
    }
    // async twins on a simulated disk
    let pol = Policy { rd: if r.chance(50) { Xfer::Full } else { Xfer::Random(4096) }, wr: Xfer::Full, pend: if r.chance(50) { Pend { rate: 20, burst: 2, inline: 50, ctl: true } } else { Pend::NEVER }, seed: r.next_u64() };
    let mut d0 = SimDisk::new(img.to_vec(), &pol);
    let _ = sut::guard_async("Header::from_async_reader", Header::from_async_reader(&mut d0))?;
    if let Some(h) = &sh {
        let mut d1 = SimDisk::new(img.to_vec(), &pol).at(h.root_offset);
        let _ = sut::guard_async("Directory::from_async_reader", Directory::from_async_reader(&mut d1, h.root_length, comp))?.map(|d| d.len());
        let mut d2 = SimDisk::new(img.to_vec(), &pol);
        let _ = sut::guard_async("read_directories_async", pmtiles2::util::read_directories_async(&mut d2, comp, (h.root_offset, h.root_length), h.leaf_offset, ..))?.map(|m| m.len());
    }
    let disk = SimDisk::new(img.to_vec(), &pol);
    let handle = disk.clone();
    if let Ok(mut pm) = sut::guard_async("from_async_reader", PMTiles::from_async_reader(disk))? {
        for id in [0u64, u64::MAX, r.next_u64() % 50] {
            let _ = sut::guard_async("get_tile_by_id_async", pm.get_tile_by_id_async(id))?.map(|o| o.map(|b| b.len()));
        }
        let _ = sut::guard_async("get_tile_async", pm.get_tile_async(u64::MAX, 3, 40))?.map(|o| o.map(|b| b.len()));
        let mut out = SimDisk::new(Vec::new(), &pol);
        let _ = sut::guard_async("to_async_writer", pm.to_async_writer(&mut out))?;
    }
    let _ = sut::guard_async("from_async_reader_partially", PMTiles::from_async_reader_partially(SimDisk::new(img.to_vec(), &pol), ..3u64))?.map(|p| p.num_tiles());
    ctx.absorb(&handle);
    if handle.budget_exceeded() {
        return Err(sut::Violation::new("runaway:stream-operation-budget", "a call issued more than 10^8 stream operations on a small input"));
    }
    Ok(())
}

fn materialise(c: &HostileCase) -> (String, Vec<u8>) {
    match c {
        HostileCase::Crafted { id } => crafted(*id),
        HostileCase::Prefix { base, len } => {
            let mut b = base_archive(*base).to_vec();
            b.truncate(*len as usize);
            (format!("prefix {len} of base {base}"), b)
        }
        HostileCase::Subst { base, at, val } => {
            let mut b = base_archive(*base).to_vec();
            if let Some(x) = b.get_mut(*at as usize) {
                *x = *val;
            }
            (format!("base {base} byte {at} = {val:#04x}"), b)
        }
        HostileCase::Mutate { base, seed, n } => (format!("base {base} mutated (seed {seed}, {n} steps)"), mutate(&base_archive(*base), *seed, *n)),
    }
}

fn exec_hostile(case: &Value, ctx: &mut Ctx) -> V<()> {
    let c: HostileCase = from_value(case);
    ctx.evals += 1;
    let (name, img) = materialise(&c);
    ctx.trace(|| format!("input: {name}, {} bytes", img.len()));
    if measure(&img)? == Claim::Out {
        ctx.bump("skipped_outside_claim_expansion_budget", 1);
        return Ok(());
    }
    ctx.sig(case_sig(case));
    ctx.bump("fired_stored_byte_faults", 1);
    battery(&img, 7, ctx).map_err(|v| sut::Violation::new(v.class, format!("{name}: {}", v.detail)))
}

pub struct HostileCorpus;
pub struct HostileSweep;
pub struct HostileMutate;

impl Scenario for HostileCorpus {
    fn name(&self) -> &'static str {
        "hostile-corpus"
    }
    fn rule(&self) -> String {
        format!("crafted corpus: {N_HAZARDS} hazard classes (entry counts near 2^64, wrapping id / offset sums, first offset 0, section offsets near 2^64, tile id + run wrap, leaf self-pointer, 2-cycle, chains of depth 10^4 and 10^5, pointer outside the file, length 2^32-1, non-JSON / truncated / wrong-codec metadata, huge root length/offset) × 4 codecs, built with the independent encoder; every reader entry point, lookup, partial open, re-write and async twin is called on each; distinct = distinct inputs inside the claim; all non-trivial")
    }
    fn enumerated(&self, _tier: Tier) -> Option<u64> {
        Some(u64::from(N_HAZARDS) * 4)
    }
    fn isolated(&self) -> bool {
        true
    }
    fn generate(&self, _rng: &mut Rng, _tier: Tier, run: u64) -> Value {
        to_value(&HostileCase::Crafted { id: run as u32 })
    }
    fn execute(&self, case: &Value, ctx: &mut Ctx) -> V<()> {
        exec_hostile(case, ctx)
    }
}

fn sweep_bases(tier: Tier) -> Vec<u32> {
    if tier == Tier::Quick {
        vec![0, 1, 2, 3, 9, 14, 16, 23]
    } else {
        (0..N_SMALL_BASES).collect()
    }
}

fn sweep_index(tier: Tier) -> Vec<(u32, u64)> {
    static Q: std::sync::OnceLock<Vec<(u32, u64)>> = std::sync::OnceLock::new();
    static T: std::sync::OnceLock<Vec<(u32, u64)>> = std::sync::OnceLock::new();
    let cell = if tier == Tier::Quick { &Q } else { &T };
    cell.get_or_init(|| sweep_index_build(tier)).clone()
}

fn sweep_index_build(tier: Tier) -> Vec<(u32, u64)> {
    // (base, cumulative count) for prefixes then substitutions
    let mut v = Vec::new();
    let mut acc = 0u64;
    for b in sweep_bases(tier) {
        let len = base_archive(b).len() as u64;
        acc += len; // prefixes 0..len-1
        v.push((b, acc));
    }
    v
}

impl Scenario for HostileSweep {
    fn name(&self) -> &'static str {
        "hostile-sweep"
    }
    fn rule(&self) -> String {
        "exhaustive sweeps over small valid archives (4 codecs × root-only / leaves × foreign writer / crate sync writer / crate async writer): every proper prefix, and every byte position × {00,01,7F,80,FF}; each input goes through the whole battery of reader calls; distinct = distinct inputs; non-trivial = input differs from the base archive".into()
    }
    fn enumerated(&self, tier: Tier) -> Option<u64> {
        let total: u64 = sweep_bases(tier).iter().map(|b| base_archive(*b).len() as u64).sum();
        Some(total + total * SUBST_VALUES.len() as u64)
    }
    fn isolated(&self) -> bool {
        true
    }
    fn generate(&self, _rng: &mut Rng, tier: Tier, run: u64) -> Value {
        let idx = sweep_index(tier);
        let total = idx.last().map_or(0, |x| x.1);
        if run < total {
            let mut prev = 0;
            for (b, acc) in &idx {
                if run < *acc {
                    return to_value(&HostileCase::Prefix { base: *b, len: (run - prev) as u32 });
                }
                prev = *acc;
            }
        }
        let r = run - total;
        let pos = r / SUBST_VALUES.len() as u64;
        let val = SUBST_VALUES[(r % SUBST_VALUES.len() as u64) as usize];
        let mut prev = 0;
        for (b, acc) in &idx {
            if pos < *acc {
                return to_value(&HostileCase::Subst { base: *b, at: (pos - prev) as u32, val });
            }
            prev = *acc;
        }
        to_value(&HostileCase::Crafted { id: 0 })
    }
    fn execute(&self, case: &Value, ctx: &mut Ctx) -> V<()> {
        exec_hostile(case, ctx)
    }
}

impl Scenario for HostileMutate {
    fn name(&self) -> &'static str {
        "hostile-mutate"
    }
    fn rule(&self) -> String {
        "seeded structure-aware mutation of valid archives in all compressions: a directory is decoded, one or more varint fields / the entry count set to boundary values or columns spliced, re-encoded and recompressed, lengths fixed up or deliberately not; header fields set to boundary values; leaf pointers redirected (self-reference, outside); metadata replaced (bad JSON, wrong codec, truncated); truncation; byte flips; 1–3 steps per input; distinct = distinct serialized cases inside the claim; all non-trivial".into()
    }
    fn isolated(&self) -> bool {
        true
    }
    fn generate(&self, rng: &mut Rng, _tier: Tier, _run: u64) -> Value {
        let base = if rng.chance(4) { N_SMALL_BASES + rng.below(u64::from(N_BASES - N_SMALL_BASES)) as u32 } else { rng.below(u64::from(N_SMALL_BASES)) as u32 };
        to_value(&HostileCase::Mutate { base, seed: rng.next_u64(), n: 1 + rng.below(3) as u8 })
    }
    fn execute(&self, case: &Value, ctx: &mut Ctx) -> V<()> {
        exec_hostile(case, ctx)
    }
    fn shrink(&self, case: &Value) -> Vec<Value> {
        let c: HostileCase = from_value(case);
        let mut out = Vec::new();
        if let HostileCase::Mutate { base, seed, n } = c {
            if n > 1 {
                out.push(to_value(&HostileCase::Mutate { base, seed, n: 1 }));
                out.push(to_value(&HostileCase::Mutate { base, seed, n: n - 1 }));
            }
            if base >= 4 {
                out.push(to_value(&HostileCase::Mutate { base: base % 4, seed, n }));
            }
        }
        out
    }
}

/// Debug aid: `pmtsim hostile-dump '<case json>'`.
pub fn dump_main(case_json: &str) -> i32 {
    let v: Value = serde_json::from_str(case_json).expect("case json");
    let c: HostileCase = from_value(&v);
    let (name, img) = materialise(&c);
    println!("{name}: {} bytes", img.len());
    match spec::parse_header(&img) {
        Ok(h) => {
            println!("{h:?}");
            let end = h.root_offset.saturating_add(h.root_length).min(img.len() as u64);
            if h.root_offset < end {
                let raw = &img[h.root_offset as usize..end as usize];
                match spec::decompress_limited(h.ic, raw, 1 << 26) {
                    Ok(p) => {
                        println!("root plain {} bytes: {:?}", p.len(), &p[..p.len().min(80)]);
                        println!("decode: {:?}", spec::decode_dir(&p).map(|e| e.into_iter().take(12).collect::<Vec<_>>()));
                    }
                    Err(e) => println!("root decompress: {e}"),
                }
                let len = spec::decompress_lenient(h.ic, raw, 1 << 26);
                println!("lenient: {} bytes {:?}", len.len(), &len[..len.len().min(80)]);
                println!("generous decode: {:?}", decode_dir_generous(&len).map(|e| e.into_iter().take(12).collect::<Vec<_>>()));
                let la = spec::decompress_lenient_async(h.ic, raw, 1 << 26);
                println!("lenient async: {} bytes {:?}", la.len(), &la[..la.len().min(80)]);
                println!("generous decode (async): {:?}", decode_dir_generous(&la).map(|e| e.into_iter().take(12).collect::<Vec<_>>()));
                let mut dd = SimDisk::plain(img.clone()).at(h.root_offset);
                let r = crate::sut::guard_async("x", pmtiles2::Directory::from_async_reader(&mut dd, h.root_length, crate::sut::comp(h.ic)));
                println!("crate Directory::from_async_reader: {:?}", r.map(|r| r.map(|d| (&d).into_iter().take(8).copied().collect::<Vec<_>>())));
                for (name, pol) in [("random reads", Policy { rd: Xfer::Random(4096), wr: Xfer::Full, pend: Pend::NEVER, seed: 5 }), ("pending", Policy { rd: Xfer::Full, wr: Xfer::Full, pend: Pend { rate: 20, burst: 2, inline: 50, ctl: true }, seed: 5 }), ("one byte", Policy { rd: Xfer::One, wr: Xfer::Full, pend: Pend::NEVER, seed: 5 })] {
                    let mut dd = SimDisk::new(img.clone(), &pol).at(h.root_offset);
                    let r = crate::sut::guard_async("x", pmtiles2::Directory::from_async_reader(&mut dd, h.root_length, crate::sut::comp(h.ic)));
                    println!("crate Directory::from_async_reader under {name}: {:?}", r.map(|r| r.map(|d| (&d).into_iter().take(3).copied().collect::<Vec<_>>())));
                }
                // what the crate itself makes of that slice
                let d = pmtiles2::Directory::from_bytes(raw, crate::sut::comp(h.ic));
                println!("crate Directory::from_bytes: {:?}", d.map(|d| (&d).into_iter().take(8).copied().collect::<Vec<_>>()));
            }
        }
        Err(e) => println!("header: {e}"),
    }
    if let Ok(h) = spec::parse_header(&img) {
        if let Ok(root) = spec::read_dir_at(&img, h.ic, h.root_offset, h.root_length.min(img.len() as u64)) {
            for e in root.iter().filter(|e| e.run_length == 0).take(4) {
                let o = h.leaf_offset.saturating_add(e.offset);
                let end = o.saturating_add(u64::from(e.length)).min(img.len() as u64);
                if o < end {
                    let raw = &img[o as usize..end as usize];
                    let a = decode_dir_generous(&spec::decompress_lenient(h.ic, raw, 64 << 20));
                    let b = decode_dir_generous(&spec::decompress_lenient_async(h.ic, raw, 64 << 20));
                    let f = |x: &Option<Vec<SpecEntry>>| x.as_ref().map(|v| (v.len(), v.iter().map(|e| u64::from(e.run_length)).max()));
                    println!("leaf at {o}+{}: sync lenient {:?}, async lenient {:?}", e.length, f(&a), f(&b));
                    let c = pmtiles2::Directory::from_bytes(raw, crate::sut::comp(h.ic));
                    println!("   crate: {:?}", c.map(|d| ((&d).into_iter().count(), (&d).into_iter().map(|e| e.run_length).max())));
                }
            }
        }
    }
    println!("measure: {:?}", measure(&img).map_err(|v| v.class));
    0
}
