//! `SimDisk`: the simulated byte stream. Implements the six stream traits the crate is generic
//! over. Every transfer size, every `Pending`, every error and every crash point is decided here
//! from a seeded PRNG (or an explicit script), and every operation is counted / logged.

use std::io::{self, Read, Seek, SeekFrom, Write};
use std::pin::Pin;
use std::sync::{Arc, Mutex};
use std::task::{Context, Poll};

use futures::io::{AsyncRead, AsyncSeek, AsyncWrite};
use serde::{Deserialize, Serialize};

use crate::exec;
use crate::rng::Rng;

/// How many bytes of a requested transfer are granted.
#[derive(Clone, Debug, Serialize, Deserialize, PartialEq, Eq)]
pub enum Xfer {
    /// everything that was asked for
    Full,
    /// one byte per call
    One,
    /// at most c bytes per call
    Fixed(u32),
    /// uniform in [1, min(req, max)]
    Random(u32),
    /// alternates 1..=3 bytes / everything
    TinyHuge,
    /// explicit grants, then Full
    Script(Vec<u32>),
}

#[derive(Clone, Copy, Debug, Serialize, Deserialize, PartialEq, Eq)]
pub struct Pend {
    /// percentage of operations that answer `Pending` at least once
    pub rate: u8,
    /// max number of `Pending` answers for one operation
    pub burst: u8,
    /// percentage of wake-ups delivered inline (before returning Pending); rest are deferred
    pub inline: u8,
    /// `Pending` also on seek / flush / close
    pub ctl: bool,
}

impl Pend {
    pub const NEVER: Pend = Pend { rate: 0, burst: 0, inline: 0, ctl: false };
}

#[derive(Clone, Debug, Serialize, Deserialize, PartialEq, Eq)]
pub struct Policy {
    pub rd: Xfer,
    pub wr: Xfer,
    pub pend: Pend,
    pub seed: u64,
}

impl Policy {
    pub fn plain() -> Self {
        Policy { rd: Xfer::Full, wr: Xfer::Full, pend: Pend::NEVER, seed: 0 }
    }
    pub fn is_plain(&self) -> bool {
        self.rd == Xfer::Full && self.wr == Xfer::Full && self.pend.rate == 0
    }
    /// Swarm draw of a benign (fault-free) schedule policy.
    pub fn draw(rng: &mut Rng, asyncish: bool) -> Self {
        let x = |rng: &mut Rng| match rng.below(10) {
            0 | 1 => Xfer::Full,
            2 => Xfer::One,
            3 | 4 => Xfer::Fixed(1 + rng.below(16) as u32),
            5 => Xfer::Fixed(1 + rng.below(5000) as u32),
            6 | 7 => Xfer::Random(1 + rng.log_range(1, 70_000) as u32),
            _ => Xfer::TinyHuge,
        };
        let rd = x(rng);
        let wr = x(rng);
        let pend = if asyncish && rng.chance(75) {
            Pend {
                rate: *rng.pick(&[5u8, 20, 50, 100]),
                burst: 1 + rng.below(3) as u8,
                inline: *rng.pick(&[0u8, 50, 100]),
                ctl: rng.chance(60),
            }
        } else {
            Pend::NEVER
        };
        Policy { rd, wr, pend, seed: rng.next_u64() }
    }
    /// A short human-readable tag, used in signatures.
    pub fn tag(&self) -> String {
        format!("{:?}/{:?}/p{}b{}i{}c{}", self.rd, self.wr, self.pend.rate, self.pend.burst, self.pend.inline, self.pend.ctl as u8)
    }
}

#[derive(Clone, Copy, Debug, Serialize, Deserialize, PartialEq, Eq)]
pub enum FKind {
    Other,
    BrokenPipe,
    PermissionDenied,
    /// writes answer Ok(0); every other operation answers an error
    ZeroWrite,
}

#[derive(Clone, Copy, Debug, Serialize, Deserialize, PartialEq, Eq)]
pub enum Fault {
    None,
    /// operation `at` (0-based index over completed operations) and all later ones fail
    FailStop { at: u64, kind: FKind },
    /// like FailStop, but only operations of kind write/flush/close fail ("disk full"); exploratory
    WritesFail { at: u64 },
    /// `n` operations starting at `at` answer ErrorKind::Interrupted (sync faces); exploratory
    Interrupted { at: u64, n: u64 },
    /// `n` operations starting at `at` fail with ErrorKind::TimedOut, then the stream works again
    Transient { at: u64, n: u64 },
    /// the async operation with index `at` answers `Pending` once (wake-up deferred) and raises
    /// the `stalled` flag, which is where a cancelling executor drops the future; sync faces
    /// ignore it
    Stall { at: u64 },
}

#[derive(Clone, Copy, Debug, PartialEq, Eq)]
pub enum OpKind {
    Read,
    Write,
    Seek,
    Flush,
    Close,
}

#[derive(Clone, Debug)]
pub struct Op {
    pub kind: OpKind,
    /// stream position before the operation
    pub pos: u64,
    pub req: u64,
    /// bytes transferred (read/write) or the new position (seek)
    pub got: u64,
    pub ok: bool,
    /// data written (only when data recording is on)
    pub data: Option<Vec<u8>>,
}

#[derive(Clone, Debug, Default)]
pub struct DiskStats {
    pub ops: u64,
    pub reads: u64,
    pub writes: u64,
    pub seeks: u64,
    pub flushes: u64,
    pub closes: u64,
    pub short_reads: u64,
    pub short_writes: u64,
    pub pendings: u64,
    pub inline_wakes: u64,
    pub deferred_wakes: u64,
    pub faults_fired: u64,
    pub bytes_read: u64,
    pub bytes_written: u64,
    pub writes_after_close: u64,
    pub eof_reads: u64,
}

pub const OP_BUDGET: u64 = 100_000_000;

/// A read-only stream of `len` bytes that is zero everywhere except for `segs` (sorted by
/// offset, non-overlapping): archives of many GiB without the memory.
#[derive(Clone, Debug, Default)]
pub struct Sparse {
    pub segs: Vec<(u64, Vec<u8>)>,
    pub len: u64,
}

struct Inner {
    image: Vec<u8>,
    sparse: Option<Sparse>,
    pos: u64,
    policy: Policy,
    rng: Rng,
    fault: Fault,
    record: bool,
    record_data: bool,
    log: Vec<Op>,
    stats: DiskStats,
    digest: u64,
    pend_left: Option<u8>,
    toggle: bool,
    rd_script_ix: usize,
    wr_script_ix: usize,
    closed: bool,
    budget_exceeded: bool,
    stalled: bool,
    epoch_seen: u64,
    ops_in_call: u64,
    budget: u64,
}

/// Cloneable handle to one simulated stream.
#[derive(Clone)]
pub struct SimDisk(Arc<Mutex<Inner>>);

impl std::fmt::Debug for SimDisk {
    fn fmt(&self, f: &mut std::fmt::Formatter<'_>) -> std::fmt::Result {
        write!(f, "SimDisk")
    }
}

impl SimDisk {
    pub fn new(image: Vec<u8>, policy: &Policy) -> Self {
        SimDisk(Arc::new(Mutex::new(Inner {
            image,
            pos: 0,
            rng: Rng::new(policy.seed),
            policy: policy.clone(),
            fault: Fault::None,
            record: false,
            record_data: false,
            log: Vec::new(),
            stats: DiskStats::default(),
            digest: 0x1234_5678_9abc_def0,
            pend_left: None,
            toggle: false,
            rd_script_ix: 0,
            wr_script_ix: 0,
            closed: false,
            budget_exceeded: false,
            stalled: false,
            sparse: None,
            epoch_seen: 0,
            ops_in_call: 0,
            budget: OP_BUDGET,
        })))
    }
    /// A sparse, read-only stream (see `Sparse`).
    pub fn sparse(sp: Sparse, policy: &Policy) -> Self {
        let d = SimDisk::new(Vec::new(), policy);
        d.lock().sparse = Some(sp);
        d
    }
    pub fn plain(image: Vec<u8>) -> Self {
        Self::new(image, &Policy::plain())
    }
    fn lock(&self) -> std::sync::MutexGuard<'_, Inner> {
        match self.0.lock() {
            Ok(g) => g,
            Err(p) => p.into_inner(),
        }
    }
    pub fn at(self, pos: u64) -> Self {
        self.lock().pos = pos;
        self
    }
    /// Per-call stream operation budget (a runaway loop becomes a deterministic error).
    pub fn budget(self, n: u64) -> Self {
        self.lock().budget = n;
        self
    }
    pub fn fault(self, f: Fault) -> Self {
        self.lock().fault = f;
        self
    }
    pub fn set_fault(&self, f: Fault) {
        let mut g = self.lock();
        g.fault = f;
        g.stalled = false;
    }
    /// True once an armed `Fault::Stall` has answered its `Pending`.
    pub fn stalled(&self) -> bool {
        self.lock().stalled
    }
    pub fn recording(self, data: bool) -> Self {
        {
            let mut g = self.lock();
            g.record = true;
            g.record_data = data;
        }
        self
    }
    pub fn image(&self) -> Vec<u8> {
        self.lock().image.clone()
    }
    pub fn image_len(&self) -> usize {
        self.lock().image.len()
    }
    pub fn pos(&self) -> u64 {
        self.lock().pos
    }
    pub fn stats(&self) -> DiskStats {
        self.lock().stats.clone()
    }
    pub fn nops(&self) -> u64 {
        self.lock().stats.ops
    }
    pub fn digest(&self) -> u64 {
        self.lock().digest
    }
    /// True when the last operation that answered `Pending` was never driven to completion.
    /// Signature of the schedule policy (transfer rules + Pending rules, without the seed).
    pub fn policy_sig(&self) -> u64 {
        crate::rng::hash_str(&self.lock().policy.tag())
    }
    pub fn has_abandoned_op(&self) -> bool {
        self.lock().pend_left.is_some()
    }
    pub fn budget_exceeded(&self) -> bool {
        self.lock().budget_exceeded
    }
    pub fn take_log(&self) -> Vec<Op> {
        std::mem::take(&mut self.lock().log)
    }
    pub fn clear_log(&self) {
        self.lock().log.clear();
    }
    /// Union of byte ranges actually read since the log was last cleared, as sorted disjoint
    /// half-open intervals.
    pub fn read_set(&self) -> Vec<(u64, u64)> {
        let g = self.lock();
        let mut v: Vec<(u64, u64)> = g
            .log
            .iter()
            .filter(|o| o.kind == OpKind::Read && o.ok && o.got > 0)
            .map(|o| (o.pos, o.pos + o.got))
            .collect();
        v.sort_unstable();
        let mut out: Vec<(u64, u64)> = Vec::new();
        for (a, b) in v {
            if let Some(last) = out.last_mut() {
                if a <= last.1 {
                    last.1 = last.1.max(b);
                    continue;
                }
            }
            out.push((a, b));
        }
        out
    }
}

impl Inner {
    fn mixd(&mut self, a: u64, b: u64) {
        self.digest = (self.digest ^ a).wrapping_mul(0x0000_0100_0000_01B3).rotate_left(23) ^ b.wrapping_mul(0x9E37_79B9_7F4A_7C15);
    }

    fn grant(&mut self, write: bool, req: usize) -> usize {
        if req == 0 {
            return 0;
        }
        let x = if write { self.policy.wr.clone() } else { self.policy.rd.clone() };
        let g = match x {
            Xfer::Full => req,
            Xfer::One => 1,
            Xfer::Fixed(c) => (c.max(1) as usize).min(req),
            Xfer::Random(max) => 1 + self.rng.usize_below(req.min(max.max(1) as usize)),
            Xfer::TinyHuge => {
                self.toggle = !self.toggle;
                if self.toggle {
                    (1 + self.rng.usize_below(3)).min(req)
                } else {
                    req
                }
            }
            Xfer::Script(v) => {
                let ix = if write { &mut self.wr_script_ix } else { &mut self.rd_script_ix };
                let g = v.get(*ix).copied().map_or(req, |c| (c.max(1) as usize).min(req));
                *ix += 1;
                g
            }
        };
        g.clamp(1, req)
    }

    fn total_len(&self) -> u64 {
        self.sparse.as_ref().map_or(self.image.len() as u64, |s| s.len)
    }

    /// Decides whether the operation that is about to complete fails. Consumes one op index.
    fn begin(&mut self, kind: OpKind) -> Result<(), io::Error> {
        let idx = self.stats.ops;
        self.stats.ops += 1;
        let ep = exec::call_epoch();
        if ep != self.epoch_seen {
            self.epoch_seen = ep;
            self.ops_in_call = 0;
        }
        self.ops_in_call += 1;
        if self.ops_in_call > self.budget {
            self.budget_exceeded = true;
            return Err(io::Error::new(io::ErrorKind::Other, "simdisk: operation budget exceeded"));
        }
        match self.fault {
            Fault::None | Fault::Stall { .. } => Ok(()),
            Fault::FailStop { at, kind: fk } => {
                if idx >= at {
                    self.stats.faults_fired += 1;
                    match fk {
                        FKind::Other => Err(io::Error::new(io::ErrorKind::Other, "simdisk: injected failure")),
                        FKind::BrokenPipe => Err(io::Error::new(io::ErrorKind::BrokenPipe, "simdisk: injected broken pipe")),
                        FKind::PermissionDenied => Err(io::Error::new(io::ErrorKind::PermissionDenied, "simdisk: injected permission denied")),
                        FKind::ZeroWrite => {
                            if kind == OpKind::Write {
                                Err(io::Error::new(io::ErrorKind::WriteZero, "__zero__"))
                            } else {
                                Err(io::Error::new(io::ErrorKind::Other, "simdisk: injected failure"))
                            }
                        }
                    }
                } else {
                    Ok(())
                }
            }
            Fault::WritesFail { at } => {
                if idx >= at && matches!(kind, OpKind::Write | OpKind::Flush | OpKind::Close) {
                    self.stats.faults_fired += 1;
                    Err(io::Error::new(io::ErrorKind::Other, "simdisk: injected disk full"))
                } else {
                    Ok(())
                }
            }
            Fault::Transient { at, n } => {
                if idx >= at && idx < at + n {
                    self.stats.faults_fired += 1;
                    Err(io::Error::new(io::ErrorKind::TimedOut, "simdisk: injected transient timeout"))
                } else {
                    Ok(())
                }
            }
            Fault::Interrupted { at, n } => {
                if idx >= at && idx < at + n {
                    self.stats.faults_fired += 1;
                    Err(io::Error::new(io::ErrorKind::Interrupted, "simdisk: injected EINTR"))
                } else {
                    Ok(())
                }
            }
        }
    }

    fn logop(&mut self, kind: OpKind, pos: u64, req: u64, got: u64, ok: bool, data: Option<Vec<u8>>) {
        self.mixd(kind as u64 + 1 + (u64::from(ok) << 8), pos.wrapping_mul(31) ^ req.wrapping_mul(131) ^ got.wrapping_mul(1031));
        if self.record {
            self.log.push(Op { kind, pos, req, got, ok, data });
        }
    }

    fn do_read(&mut self, buf: &mut [u8]) -> io::Result<usize> {
        let pos = self.pos;
        if let Err(e) = self.begin(OpKind::Read) {
            self.logop(OpKind::Read, pos, buf.len() as u64, 0, false, None);
            return Err(e);
        }
        self.stats.reads += 1;
        let avail = self.total_len().saturating_sub(pos).min(buf.len() as u64) as usize;
        let want = buf.len().min(avail);
        let n = self.grant(false, want);
        if n < want {
            self.stats.short_reads += 1;
        }
        if n == 0 && !buf.is_empty() {
            self.stats.eof_reads += 1;
        }
        if n > 0 {
            if let Some(sp) = &self.sparse {
                buf[..n].fill(0);
                let end = pos + n as u64;
                for (o, d) in &sp.segs {
                    let (a, b) = ((*o).max(pos), (*o + d.len() as u64).min(end));
                    if a < b {
                        buf[(a - pos) as usize..(b - pos) as usize].copy_from_slice(&d[(a - o) as usize..(b - o) as usize]);
                    }
                }
            } else {
                let p = pos as usize;
                buf[..n].copy_from_slice(&self.image[p..p + n]);
            }
        }
        self.pos += n as u64;
        self.stats.bytes_read += n as u64;
        self.logop(OpKind::Read, pos, buf.len() as u64, n as u64, true, None);
        Ok(n)
    }

    fn do_write(&mut self, buf: &[u8]) -> io::Result<usize> {
        let pos = self.pos;
        if let Err(e) = self.begin(OpKind::Write) {
            self.logop(OpKind::Write, pos, buf.len() as u64, 0, false, None);
            if e.kind() == io::ErrorKind::WriteZero && e.to_string() == "__zero__" {
                return Ok(0);
            }
            return Err(e);
        }
        self.stats.writes += 1;
        if self.closed {
            self.stats.writes_after_close += 1;
        }
        assert!(self.sparse.is_none(), "harness: sparse simulated streams are read-only");
        let n = self.grant(true, buf.len());
        if n < buf.len() {
            self.stats.short_writes += 1;
        }
        if n > 0 {
            let p = usize::try_from(pos).map_err(|_| io::Error::new(io::ErrorKind::Other, "simdisk: position too large"))?;
            if p > (1usize << 36) {
                return Err(io::Error::new(io::ErrorKind::Other, "simdisk: write position beyond 64 GiB refused"));
            }
            if self.image.len() < p + n {
                self.image.resize(p + n, 0);
            }
            self.image[p..p + n].copy_from_slice(&buf[..n]);
        }
        self.pos += n as u64;
        self.stats.bytes_written += n as u64;
        let data = if self.record_data { Some(buf[..n].to_vec()) } else { None };
        self.logop(OpKind::Write, pos, buf.len() as u64, n as u64, true, data);
        Ok(n)
    }

    fn do_seek(&mut self, to: SeekFrom) -> io::Result<u64> {
        let pos = self.pos;
        let code = match to {
            SeekFrom::Start(n) => n,
            SeekFrom::Current(d) => d as u64 ^ (1 << 62),
            SeekFrom::End(d) => d as u64 ^ (1 << 61),
        };
        if let Err(e) = self.begin(OpKind::Seek) {
            self.logop(OpKind::Seek, pos, code, 0, false, None);
            return Err(e);
        }
        self.stats.seeks += 1;
        let new = match to {
            SeekFrom::Start(n) => Some(n),
            SeekFrom::Current(d) => pos.checked_add_signed(d),
            SeekFrom::End(d) => self.total_len().checked_add_signed(d),
        };
        match new {
            Some(n) => {
                self.pos = n;
                self.logop(OpKind::Seek, pos, code, n, true, None);
                Ok(n)
            }
            None => {
                self.logop(OpKind::Seek, pos, code, 0, false, None);
                Err(io::Error::new(io::ErrorKind::InvalidInput, "simdisk: invalid seek to a negative or overflowing position"))
            }
        }
    }

    fn do_flush(&mut self) -> io::Result<()> {
        let pos = self.pos;
        if let Err(e) = self.begin(OpKind::Flush) {
            self.logop(OpKind::Flush, pos, 0, 0, false, None);
            return Err(e);
        }
        self.stats.flushes += 1;
        self.logop(OpKind::Flush, pos, 0, 0, true, None);
        Ok(())
    }

    fn do_close(&mut self) -> io::Result<()> {
        let pos = self.pos;
        if let Err(e) = self.begin(OpKind::Close) {
            self.logop(OpKind::Close, pos, 0, 0, false, None);
            return Err(e);
        }
        self.stats.closes += 1;
        self.closed = true;
        self.logop(OpKind::Close, pos, 0, 0, true, None);
        Ok(())
    }

    /// Returns true when the current async operation must answer `Pending` now.
    fn maybe_pend(&mut self, cx: &mut Context<'_>, ctl: bool) -> bool {
        if let Fault::Stall { at } = self.fault {
            if !self.stalled && self.stats.ops >= at {
                self.stalled = true;
                self.stats.pendings += 1;
                self.stats.deferred_wakes += 1;
                self.stats.faults_fired += 1;
                self.mixd(0xfd, self.stats.pendings);
                exec::defer_wake(cx.waker().clone());
                return true;
            }
        }
        let p = self.policy.pend;
        if p.rate == 0 || (ctl && !p.ctl) {
            return false;
        }
        let pend_now = match self.pend_left {
            None => {
                if self.rng.below(100) < u64::from(p.rate) {
                    let n = 1 + self.rng.below(u64::from(p.burst.max(1))) as u8;
                    self.pend_left = Some(n - 1);
                    true
                } else {
                    false
                }
            }
            Some(0) => {
                self.pend_left = None;
                false
            }
            Some(n) => {
                self.pend_left = Some(n - 1);
                true
            }
        };
        if pend_now {
            self.stats.pendings += 1;
            self.mixd(0xfe, self.stats.pendings);
            if self.rng.below(100) < u64::from(p.inline) {
                self.stats.inline_wakes += 1;
                cx.waker().wake_by_ref();
            } else {
                self.stats.deferred_wakes += 1;
                exec::defer_wake(cx.waker().clone());
            }
        }
        pend_now
    }
}

impl Read for SimDisk {
    fn read(&mut self, buf: &mut [u8]) -> io::Result<usize> {
        self.lock().do_read(buf)
    }
}
impl Write for SimDisk {
    fn write(&mut self, buf: &[u8]) -> io::Result<usize> {
        self.lock().do_write(buf)
    }
    /// A native gather write: one operation takes bytes from as many slices as the transfer
    /// policy grants (the default implementation would only ever look at the first slice).
    fn write_vectored(&mut self, bufs: &[io::IoSlice<'_>]) -> io::Result<usize> {
        let all: Vec<u8> = bufs.iter().flat_map(|b| b.iter().copied()).collect();
        self.lock().do_write(&all)
    }
    fn flush(&mut self) -> io::Result<()> {
        self.lock().do_flush()
    }
}
impl Seek for SimDisk {
    fn seek(&mut self, pos: SeekFrom) -> io::Result<u64> {
        self.lock().do_seek(pos)
    }
}

impl AsyncRead for SimDisk {
    fn poll_read(self: Pin<&mut Self>, cx: &mut Context<'_>, buf: &mut [u8]) -> Poll<io::Result<usize>> {
        let mut g = self.lock();
        if g.maybe_pend(cx, false) {
            return Poll::Pending;
        }
        Poll::Ready(g.do_read(buf))
    }
}
impl AsyncWrite for SimDisk {
    fn poll_write(self: Pin<&mut Self>, cx: &mut Context<'_>, buf: &[u8]) -> Poll<io::Result<usize>> {
        let mut g = self.lock();
        if g.maybe_pend(cx, false) {
            return Poll::Pending;
        }
        Poll::Ready(g.do_write(buf))
    }
    fn poll_write_vectored(self: Pin<&mut Self>, cx: &mut Context<'_>, bufs: &[io::IoSlice<'_>]) -> Poll<io::Result<usize>> {
        let mut g = self.lock();
        if g.maybe_pend(cx, false) {
            return Poll::Pending;
        }
        let all: Vec<u8> = bufs.iter().flat_map(|b| b.iter().copied()).collect();
        Poll::Ready(g.do_write(&all))
    }
    fn poll_flush(self: Pin<&mut Self>, cx: &mut Context<'_>) -> Poll<io::Result<()>> {
        let mut g = self.lock();
        if g.maybe_pend(cx, true) {
            return Poll::Pending;
        }
        Poll::Ready(g.do_flush())
    }
    fn poll_close(self: Pin<&mut Self>, cx: &mut Context<'_>) -> Poll<io::Result<()>> {
        let mut g = self.lock();
        if g.maybe_pend(cx, true) {
            return Poll::Pending;
        }
        Poll::Ready(g.do_close())
    }
}
impl AsyncSeek for SimDisk {
    fn poll_seek(self: Pin<&mut Self>, cx: &mut Context<'_>, pos: SeekFrom) -> Poll<io::Result<u64>> {
        let mut g = self.lock();
        if g.maybe_pend(cx, true) {
            return Poll::Pending;
        }
        Poll::Ready(g.do_seek(pos))
    }
}
