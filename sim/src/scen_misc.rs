//! C14 (compression adapters under chunk schedules), C09 (header on a simulated disk: EOF at
//! every length, stored-byte substitution, consumption trace, lossless re-encoding),
//! C19 (documented rejections: an error value, and nothing changes).

use std::io::{Read, Write};

use futures::io::{AsyncReadExt, AsyncWriteExt};
use pmtiles2::{Directory, Header};
use serde::{Deserialize, Serialize};
use serde_json::Value;

use crate::case::{non_object_json, Face};
use crate::disk::{Fault, Pend, Policy, SimDisk, Xfer};
use crate::rng::{hash_str, Rng};
use crate::scen::{case_sig, from_value, shrink_policy, to_value, Ctx, Scenario, Tier};
use crate::scen_stream::{draw_spec_header, entries_to_crate, header_from_spec};
use crate::spec::{self, SpecEntry, SpecHeader};
use crate::sut::{self, Violation, V};
use crate::{ensure, vio};

// ---------------------------------------------------------------------------------------------
// C14

#[derive(Clone, Copy, Debug, Serialize, Deserialize, PartialEq, Eq)]
pub struct DataSpec {
    /// 0 empty, 1 single byte, 2 runs, 3 text, 4 incompressible, 5 all byte values,
    /// 6 one repeated byte, 7 short repeating pattern
    pub kind: u8,
    pub seed: u64,
    pub len: u32,
}

impl DataSpec {
    pub fn bytes(&self) -> Vec<u8> {
        let n = self.len as usize;
        let mut r = Rng::new(self.seed);
        match self.kind {
            0 => Vec::new(),
            1 => vec![self.seed as u8],
            2 => {
                let mut v = Vec::with_capacity(n);
                while v.len() < n {
                    let b = r.next_u64() as u8;
                    let k = 1 + r.usize_below(300);
                    for _ in 0..k.min(n - v.len()) {
                        v.push(b);
                    }
                }
                v
            }
            3 => crate::case::Cont { k: 3, seed: self.seed as u32, len: self.len }.bytes(),
            4 => {
                let mut v = vec![0u8; n];
                r.fill(&mut v);
                v
            }
            5 => (0..n).map(|i| i as u8).collect(),
            6 => vec![self.seed as u8; n],
            _ => {
                // short repeating pattern: compresses far better than 1000:1
                let pat: Vec<u8> = (0..1 + (self.seed % 13) as usize).map(|i| (self.seed >> (i % 8)) as u8 ^ i as u8).collect();
                (0..n).map(|i| pat[i % pat.len()]).collect()
            }
        }
    }
}

#[derive(Clone, Debug, Serialize, Deserialize)]
pub struct CodecCase {
    pub data: DataSpec,
    /// 0 unknown, 1 none, 2 gzip, 3 brotli, 4 zstd
    pub ic: u8,
    /// 0 one-shot, 1 sync streaming writer, 2 sync streaming reader, 3 async writer, 4 async reader
    pub path: u8,
    /// how the caller splits its own writes / sizes its read buffers
    pub chunks: Xfer,
    pub pol: Policy,
    /// reader input produced by the upstream encoder (true) or by the crate's one-shot helper
    pub upstream_input: bool,
    pub pycheck: bool,
    /// streaming writers: flush after every n-th chunk as well (0 = only at the end), and twice
    /// at the end
    #[serde(default)]
    pub mid_flush: u32,
    /// before the case proper, the same thread decodes a damaged stream (which must fail or
    /// not, but must not influence what follows): 0 = no, else codec of the damaged stream
    #[serde(default)]
    pub poison: u8,
}

pub struct Codec;

fn caller_chunks(data: &[u8], x: &Xfer, seed: u64) -> Vec<usize> {
    let mut r = Rng::new(seed);
    let mut out = Vec::new();
    let mut left = data.len();
    let mut i = 0usize;
    let mut toggle = false;
    while left > 0 {
        let c = match x {
            Xfer::Full => left,
            Xfer::One => 1,
            Xfer::Fixed(c) => (*c as usize).max(1),
            Xfer::Random(m) => 1 + r.usize_below((*m as usize).max(1)),
            Xfer::TinyHuge => {
                toggle = !toggle;
                if toggle {
                    1 + r.usize_below(3)
                } else {
                    1 + r.usize_below(100_000)
                }
            }
            Xfer::Script(v) => v.get(i).map_or(left, |c| (*c as usize).max(1)),
        }
        .min(left);
        out.push(c);
        left -= c;
        i += 1;
    }
    out
}

fn crc_len(b: &[u8]) -> (u32, usize) {
    let mut c = flate2::Crc::new();
    c.update(b);
    (c.sum(), b.len())
}

impl Scenario for Codec {
    fn name(&self) -> &'static str {
        "codec"
    }
    fn rule(&self) -> String {
        "(data, codec, path, chunk schedule, stream policy): data empty / 1 byte / runs / text / incompressible / all byte values up to 64 KiB (quick) or 8 MiB (thorough); paths one-shot, sync streaming writer (caller's writes split by a chunk schedule over a short-writing disk, flush, drop), sync streaming reader (varying buffer sizes over a short-reading disk), async writer (Pending, close) and async reader; outputs decoded by the upstream libraries called directly and, for a gzip sample, by CPython zlib; 'unknown' must be refused by all six entry points; distinct = distinct serialized cases; non-trivial = data non-empty".into()
    }
    fn generate(&self, rng: &mut Rng, tier: Tier, run: u64) -> Value {
        if run == 0 {
            // exactly one input above 16 MiB per batch, through the one-shot helpers
            return to_value(&CodecCase { data: DataSpec { kind: 3, seed: 77, len: (17 << 20) + 1 }, ic: *rng.pick(&[1u8, 2, 4]), path: 0, chunks: Xfer::Full, pol: Policy::plain(), upstream_input: false, pycheck: false, mid_flush: 0, poison: 0 });
        }
        if run == 3 || (run == 4 && tier == Tier::Thorough) {
            // one input just above 2^28 bytes through zstd (one-shot; thorough adds 2^30 + a
            // little): highly compressible, so the cost is a few passes over the bytes
            let len = if run == 3 { (1u32 << 28) + 1 + rng.below(20_000) as u32 } else { (1u32 << 30) + 1 + rng.below(20_000) as u32 };
            return to_value(&CodecCase { data: DataSpec { kind: 7, seed: 79, len }, ic: 4, path: 0, chunks: Xfer::Full, pol: Policy::plain(), upstream_input: false, pycheck: false, mid_flush: 0, poison: 0 });
        }
        if run == 1 || (run == 2 && tier == Tier::Thorough) {
            // one input just above 2^27 bytes (128 MiB: the largest window a zstd decoder accepts
            // by default) through the one-shot helpers; thorough adds gzip
            return to_value(&CodecCase { data: DataSpec { kind: 7, seed: 78, len: (1 << 27) + 1 + rng.below(4000) as u32 }, ic: if run == 1 { 4 } else { 2 }, path: 0, chunks: Xfer::Full, pol: Policy::plain(), upstream_input: false, pycheck: false, mid_flush: 0, poison: 0 });
        }
        let mut kind = match rng.below(15) {
            0 => 0,
            1 => 1,
            2 | 3 => 2,
            4..=6 => 3,
            7..=9 => 4,
            10 => 5,
            11 | 12 => 6,
            _ => 7,
        };
        // multi-megabyte inputs: rare, and mostly the highly compressible kinds
        let big = rng.chance(if tier == Tier::Thorough { 3 } else { 2 });
        let max = if big { 8 << 20 } else { 64 << 10 };
        let len = if big { rng.range(1 << 20, max) as u32 } else { rng.log_range(1, max) as u32 };
        if big && rng.chance(70) {
            kind = *rng.pick(&[6u8, 7, 7, 2]);
        }
        let ic = if rng.chance(6) { 0 } else { 1 + rng.below(4) as u8 };
        // multi-megabyte inputs go through the one-shot helpers half of the time
        let path = if big && rng.chance(50) { 0 } else { rng.below(5) as u8 };
        let asyncish = path >= 3;
        let chunks = match rng.below(6) {
            0 => Xfer::Full,
            1 => Xfer::One,
            2 => Xfer::Fixed(1 + rng.below(64) as u32),
            3 => Xfer::Random(1 + rng.log_range(1, 40_000) as u32),
            4 => Xfer::TinyHuge,
            _ => Xfer::Fixed(1 + rng.log_range(1, 70_000) as u32),
        };
        let mut chunks = chunks;
        let mut len = len;
        let mut kind = kind;
        if !big && rng.chance(8) {
            // > 64 KiB of incompressible data as a long run of tiny writes (no flush), then the
            // rest in one large write
            // the run of tiny writes totals a little less or a little more than a power-of-two
            // buffer size (16, 32, 64 KiB): where a coalescing or encoder buffer is about to spill
            let c = 1 + rng.below(511) as u32;
            let edge = *rng.pick(&[65_536u32, 65_536, 65_536, 32_768, 16_384]);
            let total = edge - 2500 + rng.below(3000) as u32;
            let m = (total / c).clamp(1, 70_000);
            chunks = Xfer::Script(vec![c; m as usize]);
            len = c * m + 600 + rng.below(60_000) as u32;
            kind = 4;
        }
        let mut pol = Policy::draw(rng, asyncish);
        if len > 200_000 {
            // keep megabyte inputs affordable
            if matches!(chunks, Xfer::One | Xfer::Fixed(1..=15)) {
                chunks = Xfer::Fixed(4096);
            }
            if matches!(pol.rd, Xfer::One | Xfer::Fixed(1..=15)) {
                pol.rd = Xfer::Fixed(1000);
            }
            if matches!(pol.wr, Xfer::One | Xfer::Fixed(1..=15)) {
                pol.wr = Xfer::Fixed(1000);
            }
        }
        to_value(&CodecCase { data: DataSpec { kind, seed: rng.next_u64(), len }, ic, path, chunks, pol, upstream_input: rng.chance(50), pycheck: run % 97 == 0, mid_flush: if rng.chance(35) { 1 + rng.below(5) as u32 } else { 0 }, poison: if rng.chance(30) { 2 + rng.below(3) as u8 } else { 0 } })
    }
    fn execute(&self, case: &Value, ctx: &mut Ctx) -> V<()> {
        let c: CodecCase = from_value(case);
        ctx.evals += 1;
        let data = c.data.bytes();
        if !data.is_empty() {
            ctx.sig(case_sig(case));
        }
        let comp = sut::comp(c.ic);
        if c.ic == 0 {
            return check_unknown(&data, ctx);
        }
        ctx.bump(&format!("path_{}_codec_{}", c.path, c.ic), 1);
        if c.poison != 0 {
            // a failed decode earlier on this thread must leave no trace in later calls
            let junk = DataSpec { kind: 3, seed: c.data.seed ^ 0x51, len: 50_000 }.bytes();
            let mut z = spec::compress(c.poison, &junk).expect("oracle codec");
            z.truncate(z.len() * 3 / 4);
            let pc = sut::comp(c.poison);
            let _ = sut::guard("decompress_all(damaged)", || pmtiles2::util::decompress_all(pc, &z).map(|v| v.len()))?;
            let mut cur = std::io::Cursor::new(z);
            let _ = sut::guard("decompress(damaged)", || -> std::io::Result<usize> {
                let mut r = pmtiles2::util::decompress(pc, &mut cur)?;
                let mut sink = Vec::new();
                r.read_to_end(&mut sink)
            })?;
            ctx.bump("fired_damaged_stream_before_case", 1);
        }
        let mut produced: Option<Vec<u8>> = None;
        match c.path {
            0 => {
                let z = match sut::guard("compress_all", || pmtiles2::util::compress_all(comp, &data))? {
                    Ok(z) => z,
                    Err(e) => vio!("C14:compress-all-failed", "compress_all failed: {e}"),
                };
                let back = sut::guard("decompress_all", || pmtiles2::util::decompress_all(comp, &z))?;
                ensure!(matches!(&back, Ok(b) if *b == data), "C14:one-shot-roundtrip", "decompress_all(compress_all(x)) != x ({} bytes in, {:?} out)", data.len(), back.as_ref().map(Vec::len));
                let up = spec::compress(c.ic, &data).expect("oracle codec");
                let back2 = sut::guard("decompress_all", || pmtiles2::util::decompress_all(comp, &up))?;
                ensure!(matches!(&back2, Ok(b) if *b == data), "C14:foreign-stream-not-decoded", "decompress_all does not decode a standard stream from the upstream encoder");
                produced = Some(z);
            }
            1 => {
                let mut disk = SimDisk::new(Vec::new(), &c.pol);
                let chunks = caller_chunks(&data, &c.chunks, c.pol.seed);
                let r = sut::guard("compress (streaming)", || -> std::io::Result<()> {
                    let mut d2 = disk.clone();
                    let mut w = pmtiles2::util::compress(comp, &mut d2)?;
                    let mut at = 0;
                    for (i, n) in chunks.iter().enumerate() {
                        w.write_all(&data[at..at + n])?;
                        at += n;
                        if c.mid_flush > 0 && (i as u32 + 1) % c.mid_flush == 0 {
                            w.flush()?;
                        }
                    }
                    w.flush()?;
                    if c.mid_flush > 0 {
                        w.flush()?;
                    }
                    drop(w);
                    Ok(())
                })?;
                ctx.absorb(&disk);
                if let Err(e) = r {
                    vio!("C14:stream-writer-failed", "streaming compress on a fault-free stream failed: {e}");
                }
                produced = Some(disk.image());
            }
            2 | 4 => {
                let z = if c.upstream_input { spec::compress(c.ic, &data).expect("oracle codec") } else { pmtiles2::util::compress_all(comp, &data).map_err(|e| Violation::new("C14:compress-all-failed", e.to_string()))? };
                let mut disk = SimDisk::new(z, &c.pol);
                let bufs = caller_chunks(&vec![0u8; data.len().max(1) + 64], &c.chunks, c.pol.seed ^ 9);
                let got = if c.path == 2 {
                    sut::guard("decompress (streaming)", || -> std::io::Result<Vec<u8>> {
                        let mut r = pmtiles2::util::decompress(comp, &mut disk)?;
                        let mut out = Vec::new();
                        let mut i = 0usize;
                        loop {
                            let sz = bufs.get(i).copied().unwrap_or(4096).max(1);
                            i += 1;
                            let mut buf = vec![0u8; sz];
                            let n = r.read(&mut buf)?;
                            if n == 0 {
                                break;
                            }
                            out.extend_from_slice(&buf[..n]);
                        }
                        Ok(out)
                    })?
                } else {
                    sut::guard_async("decompress_async", async {
                        let mut r = pmtiles2::util::decompress_async(comp, &mut disk)?;
                        let mut out = Vec::new();
                        let mut i = 0usize;
                        loop {
                            let sz = bufs.get(i).copied().unwrap_or(4096).max(1);
                            i += 1;
                            let mut buf = vec![0u8; sz];
                            let n = r.read(&mut buf).await?;
                            if n == 0 {
                                break;
                            }
                            out.extend_from_slice(&buf[..n]);
                        }
                        Ok::<Vec<u8>, std::io::Error>(out)
                    })?
                };
                ctx.absorb(&disk);
                match got {
                    Ok(g) => ensure!(g == data, "C14:stream-reader-wrong", "streaming decompress returned {} bytes that differ from the {} original bytes", g.len(), data.len()),
                    Err(e) => vio!("C14:stream-reader-failed", "streaming decompress of a valid stream failed: {e}"),
                }
            }
            _ => {
                // a healthy write of n bytes needs at most a few operations per byte even under
                // one-byte transfers: a much smaller budget than the default turns a flush that
                // never completes into an error within a second
                let mut disk = SimDisk::new(Vec::new(), &c.pol).budget(64 * data.len() as u64 + 2_000_000);
                let chunks = caller_chunks(&data, &c.chunks, c.pol.seed);
                let r = sut::guard_async("compress_async", async {
                    let mut d2 = disk.clone();
                    let mut w = pmtiles2::util::compress_async(comp, &mut d2)?;
                    let mut at = 0;
                    for (i, n) in chunks.iter().enumerate() {
                        w.write_all(&data[at..at + n]).await?;
                        at += n;
                        if c.mid_flush > 0 && (i as u32 + 1) % c.mid_flush == 0 {
                            w.flush().await?;
                        }
                    }
                    w.close().await?;
                    Ok::<(), std::io::Error>(())
                })?;
                ctx.absorb(&disk);
                if let Err(e) = r {
                    if disk.budget_exceeded() && c.mid_flush > 0 {
                        vio!(format!("C14:async-flush-never-completes:codec-{}", c.ic), "the writer returned by compress_async does not finish a mid-stream flush() on a fault-free stream (transfers {:?}, Pending rate {} %): after {} stream operations for {} input bytes the call was stopped", c.pol.wr, c.pol.pend.rate, disk.nops(), data.len());
                    }
                    vio!("C14:async-writer-failed", "compress_async on a fault-free stream failed: {e}");
                }
                produced = Some(disk.image());
            }
        }
        if let Some(z) = produced {
            // standard stream: the upstream decoder returns the original bytes
            match spec::decompress_limited(c.ic, &z, (data.len() as u64 + 1024) * 2 + (1 << 20)) {
                Ok(b) => ensure!(b == data, "C14:not-a-standard-stream", "upstream decoder returns {} bytes that differ from the {} original bytes", b.len(), data.len()),
                Err(e) => vio!("C14:not-a-standard-stream", "upstream decoder rejects the compressed form: {e}"),
            }
            let back = sut::guard("decompress_all", || pmtiles2::util::decompress_all(comp, &z))?;
            ensure!(matches!(&back, Ok(b) if *b == data), "C14:roundtrip", "decompress_all of the produced stream does not return the original bytes");
            if c.pycheck && c.ic == 2 && data.len() <= 1 << 20 {
                python_gunzip_check(&z, &data, ctx)?;
            }
        }
        Ok(())
    }
    fn shrink(&self, case: &Value) -> Vec<Value> {
        let c: CodecCase = from_value(case);
        let mut out = Vec::new();
        if c.data.len > 1 {
            out.push(to_value(&CodecCase { data: DataSpec { len: c.data.len / 2, ..c.data }, ..c.clone() }));
            out.push(to_value(&CodecCase { data: DataSpec { len: c.data.len - 1, ..c.data }, ..c.clone() }));
        }
        if c.data.kind > 1 {
            out.push(to_value(&CodecCase { data: DataSpec { kind: 1, ..c.data }, ..c.clone() }));
            out.push(to_value(&CodecCase { data: DataSpec { kind: 0, ..c.data }, ..c.clone() }));
        }
        for p in shrink_policy(&c.pol) {
            out.push(to_value(&CodecCase { pol: p, ..c.clone() }));
        }
        if c.chunks != Xfer::Full {
            out.push(to_value(&CodecCase { chunks: Xfer::Full, ..c.clone() }));
        }
        if c.mid_flush != 0 {
            out.push(to_value(&CodecCase { mid_flush: 0, ..c.clone() }));
        }
        if c.poison != 0 {
            out.push(to_value(&CodecCase { poison: 0, ..c.clone() }));
        }
        out
    }
}

fn check_unknown(data: &[u8], ctx: &mut Ctx) -> V<()> {
    let u = pmtiles2::Compression::Unknown;
    let mut sink: Vec<u8> = Vec::new();
    ensure!(sut::guard("compress", || pmtiles2::util::compress(u, &mut sink).is_err())?, "C14:unknown-accepted", "compress(Unknown) did not return an error");
    ensure!(sut::guard("compress_all", || pmtiles2::util::compress_all(u, data).is_err())?, "C14:unknown-accepted", "compress_all(Unknown) did not return an error");
    let mut src = std::io::Cursor::new(data.to_vec());
    ensure!(sut::guard("decompress", || pmtiles2::util::decompress(u, &mut src).is_err())?, "C14:unknown-accepted", "decompress(Unknown) did not return an error");
    ensure!(sut::guard("decompress_all", || pmtiles2::util::decompress_all(u, data).is_err())?, "C14:unknown-accepted", "decompress_all(Unknown) did not return an error");
    let mut d = SimDisk::plain(data.to_vec());
    ensure!(sut::guard("compress_async", || pmtiles2::util::compress_async(u, &mut d).is_err())?, "C14:unknown-accepted", "compress_async(Unknown) did not return an error");
    let mut d2 = SimDisk::plain(data.to_vec());
    ensure!(sut::guard("decompress_async", || pmtiles2::util::decompress_async(u, &mut d2).is_err())?, "C14:unknown-accepted", "decompress_async(Unknown) did not return an error");
    ctx.bump("unknown_refused_by_all_six", 1);
    Ok(())
}

/// gzip decoded by an unrelated implementation (CPython's zlib binding).
fn python_gunzip_check(z: &[u8], data: &[u8], ctx: &mut Ctx) -> V<()> {
    use std::process::{Command, Stdio};
    let script = "import sys,zlib\nz=sys.stdin.buffer.read()\nd=zlib.decompress(z,31)\nprint(zlib.crc32(d)&0xffffffff,len(d))";
    let child = Command::new("python3").arg("-c").arg(script).stdin(Stdio::piped()).stdout(Stdio::piped()).stderr(Stdio::piped()).spawn();
    let Ok(mut child) = child else {
        ctx.bump("python_unavailable", 1);
        return Ok(());
    };
    if let Some(mut si) = child.stdin.take() {
        let _ = si.write_all(z);
    }
    let Ok(out) = child.wait_with_output() else {
        ctx.bump("python_unavailable", 1);
        return Ok(());
    };
    let (crc, len) = crc_len(data);
    let want = format!("{crc} {len}");
    let got = String::from_utf8_lossy(&out.stdout).trim().to_string();
    ensure!(out.status.success() && got == want, "C14:gzip-not-decoded-by-zlib", "CPython zlib does not decode the gzip output to the original bytes: got '{got}' / {} want '{want}'", String::from_utf8_lossy(&out.stderr).trim());
    ctx.bump("gzip_streams_checked_by_python_zlib", 1);
    Ok(())
}

// ---------------------------------------------------------------------------------------------
// C09

#[derive(Clone, Debug, Serialize, Deserialize)]
pub enum HeaderCase {
    /// stream ends after `len` bytes
    Eof { len: u32, face: Face, one_byte: bool },
    /// stored byte at `at` replaced by `val`
    Subst { at: u32, val: u8, face: Face },
    /// consumption trace + exact write size under a schedule
    Trace { h: SpecHeader, face: Face, pol: Policy },
    /// bytes → struct → bytes, and field values
    Lossless { h: SpecHeader, face: Face },
    /// degrees → stored integer
    Degrees { bits: u64, slot: u8 },
}

pub struct HeaderFaults;
pub struct HeaderRandom;

fn base_header() -> SpecHeader {
    SpecHeader { root_offset: 127, root_length: 25, meta_offset: 152, meta_length: 22, leaf_offset: 174, leaf_length: 0, data_offset: 174, data_length: 9, n_addressed: 3, n_entries: 2, n_contents: 2, clustered: 1, ic: 2, tc: 1, tt: 2, min_zoom: 0, max_zoom: 3, min_lon: -1_800_000_000, min_lat: -850_000_000, max_lon: 1_800_000_000, max_lat: 850_000_000, center_zoom: 1, center_lon: 21, center_lat: -21 }
}

fn read_header(bytes: Vec<u8>, face: Face, pol: &Policy, ctx: &mut Ctx) -> V<(std::io::Result<Header>, SimDisk)> {
    let mut disk = SimDisk::new(bytes, pol).recording(false);
    let r = match face {
        Face::Sync => sut::guard("Header::from_reader", || Header::from_reader(&mut disk))?,
        Face::Async => sut::guard_async("Header::from_async_reader", Header::from_async_reader(&mut disk))?,
    };
    ctx.absorb(&disk);
    Ok((r, disk))
}

fn header_fields_match(h: &Header, s: &SpecHeader) -> Result<(), String> {
    let u = [
        (h.root_directory_offset, s.root_offset, "root_directory_offset"),
        (h.root_directory_length, s.root_length, "root_directory_length"),
        (h.json_metadata_offset, s.meta_offset, "json_metadata_offset"),
        (h.json_metadata_length, s.meta_length, "json_metadata_length"),
        (h.leaf_directories_offset, s.leaf_offset, "leaf_directories_offset"),
        (h.leaf_directories_length, s.leaf_length, "leaf_directories_length"),
        (h.tile_data_offset, s.data_offset, "tile_data_offset"),
        (h.tile_data_length, s.data_length, "tile_data_length"),
        (h.num_addressed_tiles, s.n_addressed, "num_addressed_tiles"),
        (h.num_tile_entries, s.n_entries, "num_tile_entries"),
        (h.num_tile_content, s.n_contents, "num_tile_content"),
    ];
    for (a, b, n) in u {
        if a != b {
            return Err(format!("{n}: parsed {a}, stored {b}"));
        }
    }
    let e = [
        (sut::comp_code(h.internal_compression), s.ic, "internal_compression"),
        (sut::comp_code(h.tile_compression), s.tc, "tile_compression"),
        (sut::ttype_code(h.tile_type), s.tt, "tile_type"),
        (h.min_zoom, s.min_zoom, "min_zoom"),
        (h.max_zoom, s.max_zoom, "max_zoom"),
        (h.center_zoom, s.center_zoom, "center_zoom"),
        (u8::from(h.clustered), u8::from(s.clustered != 0), "clustered"),
        (h.spec_version, 3, "spec_version"),
    ];
    for (a, b, n) in e {
        if a != b {
            return Err(format!("{n}: parsed {a}, stored {b}"));
        }
    }
    let c = [
        (h.min_pos.longitude, s.min_lon),
        (h.min_pos.latitude, s.min_lat),
        (h.max_pos.longitude, s.max_lon),
        (h.max_pos.latitude, s.max_lat),
        (h.center_pos.longitude, s.center_lon),
        (h.center_pos.latitude, s.center_lat),
    ];
    for (got, st) in c {
        if (got - f64::from(st) / 1e7).abs() > 1e-12 {
            return Err(format!("coordinate: parsed {got:?}, stored {st}e-7"));
        }
    }
    Ok(())
}

fn exec_header_case(c: &HeaderCase, ctx: &mut Ctx) -> V<()> {
    match c {
        HeaderCase::Eof { len, face, one_byte } => {
            let mut bytes = spec::encode_header(&base_header()).to_vec();
            bytes.truncate(*len as usize);
            let pol = if *one_byte { Policy { rd: Xfer::One, wr: Xfer::Full, pend: if *face == Face::Async { Pend { rate: 50, burst: 2, inline: 50, ctl: false } } else { Pend::NEVER }, seed: u64::from(*len) } } else { Policy::plain() };
            let (r, _) = read_header(bytes.clone(), *face, &pol, ctx)?;
            ensure!(r.is_err(), "C09:truncated-header-accepted", "a stream of only {len} bytes was accepted as a header");
            let r2 = sut::guard("Header::from_bytes", || Header::from_bytes(&bytes))?;
            ensure!(r2.is_err(), "C09:truncated-header-accepted", "from_bytes accepted {len} bytes as a header");
            ctx.bump("fired_eof_truncations", 1);
        }
        HeaderCase::Subst { at, val, face } => {
            let base = base_header();
            let mut bytes = spec::encode_header(&base).to_vec();
            let orig = bytes[*at as usize];
            bytes[*at as usize] = *val;
            bytes.extend_from_slice(b"tail");
            let (r, _) = read_header(bytes, *face, &Policy::plain(), ctx)?;
            ctx.bump("fired_stored_byte_substitutions", 1);
            let at = *at as usize;
            let must_fail = match at {
                0..=6 => *val != orig,
                7 => *val != 3,
                97 | 98 => !spec::valid_compression_code(*val),
                99 => *val > 6,
                _ => false,
            };
            let must_pass = match at {
                0..=6 => *val == orig,
                7 => *val == 3,
                97 | 98 => spec::valid_compression_code(*val),
                99 => spec::valid_tile_type_code(*val),
                _ => false,
            };
            if must_fail {
                ensure!(r.is_err(), "C09:invalid-header-accepted", "header with byte {at} = {val:#04x} (wrong magic / version / unknown enum code) was accepted");
            }
            if must_pass {
                match &r {
                    Ok(h) => {
                        let mut want = base.clone();
                        match at {
                            97 => want.ic = *val,
                            98 => want.tc = *val,
                            99 => want.tt = *val,
                            _ => {}
                        }
                        if let Err(e) = header_fields_match(h, &want) {
                            vio!("C09:wrong-field-value", "byte {at} = {val}: {e}");
                        }
                    }
                    Err(e) => vio!("C09:valid-header-rejected", "valid header with byte {at} = {val:#04x} was rejected: {e}"),
                }
            }
        }
        HeaderCase::Trace { h, face, pol } => {
            let mut bytes = spec::encode_header(h).to_vec();
            bytes.extend_from_slice(&[0x77; 300]);
            let (r, disk) = read_header(bytes, *face, pol, ctx)?;
            ensure!(r.is_ok(), "C09:valid-header-rejected", "valid header rejected: {:?}", r.err());
            ensure!(disk.pos() == 127, "C09:consumed", "reader consumed {} bytes instead of exactly 127", disk.pos());
            ensure!(disk.read_set() == vec![(0, 127)], "C09:consumed", "reader touched {:?} instead of exactly [0,127)", disk.read_set());
            // writer transfers exactly 127 bytes
            let hd = header_from_spec(h);
            let mut out = SimDisk::new(Vec::new(), pol);
            let w = match face {
                Face::Sync => sut::guard("Header::to_writer", || hd.to_writer(&mut out))?,
                Face::Async => sut::guard_async("Header::to_async_writer", hd.to_async_writer(&mut out))?,
            };
            ctx.absorb(&out);
            ensure!(w.is_ok(), "C09:write-failed", "header write failed: {:?}", w.err());
            ensure!(out.image_len() == 127 && out.pos() == 127 && out.stats().bytes_written == 127, "C09:size", "header serialised to {} bytes (position {}, {} bytes transferred), not exactly 127", out.image_len(), out.pos(), out.stats().bytes_written);
            ensure!(out.image() == spec::encode_header(h).to_vec(), "C09:layout", "header bytes differ from the independent v3 encoding of the same field values");
        }
        HeaderCase::Lossless { h, face } => {
            let bytes = spec::encode_header(h).to_vec();
            let (r, _) = read_header(bytes.clone(), *face, &Policy::plain(), ctx)?;
            let hd = match r {
                Ok(hd) => hd,
                Err(e) => vio!("C09:valid-header-rejected", "valid header rejected: {e}"),
            };
            if let Err(e) = header_fields_match(&hd, h) {
                vio!("C09:wrong-field-value", "{e}");
            }
            let mut out = SimDisk::plain(Vec::new());
            let w = match face {
                Face::Sync => sut::guard("Header::to_writer", || hd.to_writer(&mut out))?,
                Face::Async => sut::guard_async("Header::to_async_writer", hd.to_async_writer(&mut out))?,
            };
            ensure!(w.is_ok(), "C09:write-failed", "header write failed: {:?}", w.err());
            let again = out.image();
            if again != bytes {
                let at = again.iter().zip(&bytes).position(|(a, b)| a != b);
                vio!("C09:decode-encode-drift", "parsing a valid header and serialising it again changes the bytes (first difference at offset {:?}; {} vs 127 bytes)", at, again.len());
            }
        }
        HeaderCase::Degrees { bits, slot } => {
            let d = f64::from_bits(*bits);
            let mut hd = header_from_spec(&base_header());
            let off = match slot % 6 {
                0 => {
                    hd.min_pos.longitude = d;
                    102
                }
                1 => {
                    hd.min_pos.latitude = d;
                    106
                }
                2 => {
                    hd.max_pos.longitude = d;
                    110
                }
                3 => {
                    hd.max_pos.latitude = d;
                    114
                }
                4 => {
                    hd.center_pos.longitude = d;
                    119
                }
                _ => {
                    hd.center_pos.latitude = d;
                    123
                }
            };
            let mut out = SimDisk::plain(Vec::new());
            let w = sut::guard("Header::to_writer", || hd.to_writer(&mut out))?;
            ensure!(w.is_ok(), "C09:write-failed", "header write failed: {:?}", w.err());
            let img = out.image();
            ensure!(img.len() == 127, "C09:size", "header serialised to {} bytes", img.len());
            let stored = i64::from(i32::from_le_bytes(img[off..off + 4].try_into().unwrap()));
            if let Some((lo, hi)) = spec::nearest_e7(d) {
                if lo != hi {
                    ctx.bump("probe_tie_band_coordinates", 1);
                }
                ensure!(stored >= lo && stored <= hi, "C09:not-nearest", "{d:?} degrees stored as {stored}e-7; the nearest multiple of 1e-7 is {lo}e-7");
            }
        }
    }
    Ok(())
}

const SUBST_POSITIONS: [u32; 11] = [0, 1, 2, 3, 4, 5, 6, 7, 97, 98, 99];

impl Scenario for HeaderFaults {
    fn name(&self) -> &'static str {
        "header-faults"
    }
    fn light(&self) -> bool {
        true
    }
    fn rule(&self) -> String {
        "enumeration of fault points on a stored header: EOF after each of 0..=126 bytes (sync/async, full and one-byte reads with Pending) and every value 0..=255 at each magic byte, the version byte and the three enum bytes (sync/async); distinct = distinct fault points; all are non-trivial".into()
    }
    fn enumerated(&self, _tier: Tier) -> Option<u64> {
        Some(127 * 4 + 11 * 256 * 2)
    }
    fn generate(&self, _rng: &mut Rng, _tier: Tier, run: u64) -> Value {
        let c = if run < 127 * 4 {
            HeaderCase::Eof { len: (run % 127) as u32, face: if (run / 127) % 2 == 0 { Face::Sync } else { Face::Async }, one_byte: run / 254 == 1 }
        } else {
            let r = run - 127 * 4;
            let face = if r % 2 == 0 { Face::Sync } else { Face::Async };
            let r = r / 2;
            HeaderCase::Subst { at: SUBST_POSITIONS[(r / 256) as usize], val: (r % 256) as u8, face }
        };
        to_value(&c)
    }
    fn execute(&self, case: &Value, ctx: &mut Ctx) -> V<()> {
        ctx.evals += 1;
        ctx.sig(case_sig(case));
        exec_header_case(&from_value(case), ctx)
    }
}

impl Scenario for HeaderRandom {
    fn name(&self) -> &'static str {
        "header-random"
    }
    fn light(&self) -> bool {
        true
    }
    fn rule(&self) -> String {
        "seeded headers: eleven u64 fields from {0,1,2^32,2^63,2^64-1,random}, all valid enum codes, zoom bytes 0..=255, stored coordinate integers from boundaries, small values (±21, ±19 …) and uniform over all 2^32; checks: consumption trace and 127-byte write under short-transfer/Pending schedules, byte-exact layout against the independent encoder, bytes → struct → bytes identity, field values, and degrees → stored integer against the exact-rational nearest rule (incl. half-step ties ± ulps); distinct = distinct serialized cases; all non-trivial".into()
    }
    fn generate(&self, rng: &mut Rng, _tier: Tier, _run: u64) -> Value {
        let face = Face::draw(rng);
        let c = match rng.below(10) {
            0 | 1 => HeaderCase::Trace { h: draw_spec_header(rng), face, pol: Policy::draw(rng, face == Face::Async) },
            2..=5 => HeaderCase::Lossless { h: draw_spec_header(rng), face },
            _ => {
                let slot = rng.below(6) as u8;
                let lim: f64 = if slot % 2 == 0 { 180.0 } else { 90.0 };
                HeaderCase::Degrees { bits: crate::case::draw_coord(rng, lim).to_bits(), slot }
            }
        };
        to_value(&c)
    }
    fn execute(&self, case: &Value, ctx: &mut Ctx) -> V<()> {
        ctx.evals += 1;
        ctx.sig(case_sig(case));
        exec_header_case(&from_value(case), ctx)
    }
    fn shrink(&self, case: &Value) -> Vec<Value> {
        let c: HeaderCase = from_value(case);
        let mut out = Vec::new();
        match &c {
            HeaderCase::Trace { h, face, pol } => {
                for p in shrink_policy(pol) {
                    out.push(to_value(&HeaderCase::Trace { h: h.clone(), face: *face, pol: p }));
                }
                for h2 in shrink_header(h) {
                    out.push(to_value(&HeaderCase::Trace { h: h2, face: *face, pol: pol.clone() }));
                }
            }
            HeaderCase::Lossless { h, face } => {
                for h2 in shrink_header(h) {
                    out.push(to_value(&HeaderCase::Lossless { h: h2, face: *face }));
                }
                if *face == Face::Async {
                    out.push(to_value(&HeaderCase::Lossless { h: h.clone(), face: Face::Sync }));
                }
            }
            _ => {}
        }
        out
    }
}

fn shrink_header(h: &SpecHeader) -> Vec<SpecHeader> {
    let mut out = Vec::new();
    let z = SpecHeader { ic: h.ic, ..SpecHeader::default() };
    if *h != z {
        out.push(z.clone());
    }
    let mut v = serde_json::to_value(h).unwrap();
    let zero = serde_json::to_value(&z).unwrap();
    let keys: Vec<String> = v.as_object().unwrap().keys().cloned().collect();
    for k in keys {
        if v[&k] != zero[&k] {
            let old = v[&k].clone();
            v[&k] = zero[&k].clone();
            out.push(serde_json::from_value(v.clone()).unwrap());
            v[&k] = old;
        }
    }
    out
}

// ---------------------------------------------------------------------------------------------
// C19

#[derive(Clone, Debug, Serialize, Deserialize)]
pub enum RejectCase {
    /// directory of n entries with a zero length at index `at`; `wide` > 0 encodes the length as
    /// wide·2^32 instead of a literal 0 (zero once stored in the 32-bit field)
    ZeroLen { n: u32, at: u32, seed: u64, ic: u8, via: u8, pol: Policy, #[serde(default)] wide: u8 },
    /// archive whose metadata is valid JSON but not an object
    BadMeta { kind: u8, ic: u8, face: Face, pol: Policy, with_tiles: bool },
    /// 'unknown' internal compression
    UnknownIc { write: bool, with_meta: bool, face: Face, tiles: u32, #[serde(default)] empty_root: bool },
}

pub struct Rejections;

use crate::case::{Bnd, RangeSpec};
/// Ranges of the range-filtered opens through which the "refused when opening" clauses are
/// re-checked: everything, one id, and ranges that select nothing (incl. start > end).
const REFUSAL_RANGES: [RangeSpec; 7] = [
    RangeSpec(Bnd::Unb, Bnd::Unb),
    RangeSpec(Bnd::Inc(0), Bnd::Inc(0)),
    RangeSpec(Bnd::Inc(5), Bnd::Exc(5)),
    RangeSpec(Bnd::Inc(7), Bnd::Exc(3)),
    RangeSpec(Bnd::Exc(7), Bnd::Inc(7)),
    RangeSpec(Bnd::Unb, Bnd::Exc(0)),
    RangeSpec(Bnd::Inc(1000), Bnd::Unb),
];

/// Minimal archive assembled by hand: header | root | meta | leaves | data.
pub fn assemble(ic_header: u8, root: &[u8], meta: &[u8], leaves: &[u8], data: &[u8], n: (u64, u64, u64)) -> Vec<u8> {
    let mut h = SpecHeader { ic: ic_header, tc: 1, tt: 1, clustered: 1, ..SpecHeader::default() };
    h.root_offset = 127;
    h.root_length = root.len() as u64;
    h.meta_offset = h.root_offset + h.root_length;
    h.meta_length = meta.len() as u64;
    h.leaf_offset = h.meta_offset + h.meta_length;
    h.leaf_length = leaves.len() as u64;
    h.data_offset = h.leaf_offset + h.leaf_length;
    h.data_length = data.len() as u64;
    h.n_addressed = n.0;
    h.n_entries = n.1;
    h.n_contents = n.2;
    let mut img = spec::encode_header(&h).to_vec();
    img.extend_from_slice(root);
    img.extend_from_slice(meta);
    img.extend_from_slice(leaves);
    img.extend_from_slice(data);
    img
}

fn simple_entries(n: usize, seed: u64) -> (Vec<SpecEntry>, Vec<u8>) {
    let mut r = Rng::new(seed);
    let mut es = Vec::new();
    let mut data = Vec::new();
    let mut id = r.below(5);
    for _ in 0..n {
        let len = 1 + r.below(9) as u32;
        es.push(SpecEntry { tile_id: id, offset: data.len() as u64, length: len, run_length: 1 + u32::from(r.chance(20)) });
        for _ in 0..len {
            data.push(r.next_u64() as u8);
        }
        id += 2 + r.below(50);
    }
    (es, data)
}

impl Scenario for Rejections {
    fn name(&self) -> &'static str {
        "rejections"
    }
    fn rule(&self) -> String {
        "offending element at every kind of position: zero length at a seeded index of directories of 1..300 entries fed to Directory::from_bytes / from_reader / from_async_reader (short reads, Pending), to PMTiles::from_bytes (in the root and in a leaf), to read_directories, and to Directory::to_writer / to_async_writer; metadata null/true/false/number/string/array in archives with and without tiles (4 codecs, sync/async); 'unknown' internal compression on write (0..n tiles) and on open (with and without a metadata section); distinct = distinct serialized cases; all non-trivial".into()
    }
    fn generate(&self, rng: &mut Rng, _tier: Tier, _run: u64) -> Value {
        let face = Face::draw(rng);
        let pol = Policy::draw(rng, true);
        let c = match rng.below(10) {
            0..=5 => {
                let n = 1 + rng.log_range(1, 300) as u32;
                let at = match rng.below(4) {
                    0 => 0,
                    1 => n - 1,
                    _ => rng.below(u64::from(n)) as u32,
                };
                let wide = if rng.chance(25) { 1 + rng.below(3) as u8 } else { 0 };
                // a length of k·2^32 cannot be given to the serialisers (their field is 32 bit)
                let via = if wide > 0 { rng.below(6) as u8 } else { rng.below(8) as u8 };
                RejectCase::ZeroLen { n, at, seed: rng.next_u64(), ic: 1 + rng.below(4) as u8, via, pol, wide }
            }
            6 | 7 => RejectCase::BadMeta { kind: rng.below(256) as u8, ic: 1 + rng.below(4) as u8, face, pol, with_tiles: rng.chance(50) },
            _ => RejectCase::UnknownIc { write: rng.chance(50), with_meta: rng.chance(50), face, tiles: rng.below(4) as u32, empty_root: rng.chance(30) },
        };
        to_value(&c)
    }
    fn execute(&self, case: &Value, ctx: &mut Ctx) -> V<()> {
        ctx.evals += 1;
        ctx.sig(case_sig(case));
        let c: RejectCase = from_value(case);
        match c {
            RejectCase::ZeroLen { n, at, seed, ic, via, pol, wide } => {
                let (mut es, data) = simple_entries(n as usize, seed);
                es[at as usize].length = 0;
                let plain = if wide == 0 {
                    spec::encode_dir(&es)
                } else {
                    // same directory, but the offending length column value is wide·2^32
                    let mut lens: Vec<u64> = es.iter().map(|e| u64::from(e.length)).collect();
                    lens[at as usize] = u64::from(wide) << 32;
                    let mut deltas = Vec::new();
                    let mut last = 0u64;
                    for e in &es {
                        deltas.push(e.tile_id - last);
                        last = e.tile_id;
                    }
                    let runs: Vec<u64> = es.iter().map(|e| u64::from(e.run_length)).collect();
                    let offs: Vec<u64> = es.iter().map(|e| e.offset + 1).collect();
                    spec::encode_dir_raw(es.len() as u64, &deltas, &runs, &lens, &offs)
                };
                let enc = spec::compress(ic, &plain).expect("oracle codec");
                let comp = sut::comp(ic);
                ctx.bump(&format!("zero_len_via_{via}"), 1);
                let no_zero = |r: std::io::Result<Directory>| match r {
                    Err(_) => true,
                    // a value of k·2^32 may be refused as out of range; what must never come out is
                    // a parsed directory that contains an entry of length 0
                    Ok(d) => wide > 0 && (&d).into_iter().all(|e| e.length != 0),
                };
                let refused: bool = match via {
                    0 => no_zero(sut::guard("Directory::from_bytes", || Directory::from_bytes(&enc, comp))?),
                    1 | 2 => {
                        let parse = |fault: Fault| -> V<(std::io::Result<Directory>, u64, u64)> {
                            let mut d = SimDisk::new(enc.clone(), &pol).fault(fault);
                            let len = enc.len() as u64;
                            let r = if via == 1 { sut::guard("Directory::from_reader", || Directory::from_reader(&mut d, len, comp))? } else { sut::guard_async("Directory::from_async_reader", Directory::from_async_reader(&mut d, len, comp))? };
                            Ok((r, d.nops(), d.stats().faults_fired))
                        };
                        let (r, n_ops, _) = parse(Fault::None)?;
                        let mut ok = no_zero(r);
                        // the refusal must also hold when one read of the parse is disturbed: an
                        // interrupted or timed-out read may fail the call, it must not let the
                        // offending entry through
                        let mut frng = Rng::new(seed ^ 0xE1);
                        let ks: Vec<u64> = if n_ops <= 400 { (0..n_ops).collect() } else { (0..200).map(|_| frng.below(n_ops)).collect() };
                        for k in ks {
                            for fault in [Fault::Interrupted { at: k, n: 1 }, Fault::Transient { at: k, n: 1 }] {
                                let (r, _, fired) = parse(fault)?;
                                ctx.bump(if matches!(fault, Fault::Interrupted { .. }) { "fired_interrupted_reads" } else { "fired_transient_timeouts" }, fired);
                                ctx.evals += 1;
                                if !no_zero(r) {
                                    ok = false;
                                    ctx.bump("zero_length_accepted_under_read_fault", 1);
                                }
                            }
                        }
                        ok
                    }
                    3 => {
                        let meta = spec::compress(ic, b"{}").expect("oracle codec");
                        let img = assemble(ic, &enc, &meta, &[], &data, (n.into(), n.into(), n.into()));
                        sut::guard("PMTiles::from_bytes", || pmtiles2::PMTiles::from_bytes(&img).is_err())?
                    }
                    4 => {
                        // zero length inside a leaf; root holds one pointer
                        let ptr = [SpecEntry { tile_id: es[0].tile_id, offset: 0, length: enc.len() as u32, run_length: 0 }];
                        let root = spec::compress(ic, &spec::encode_dir(&ptr)).expect("oracle codec");
                        let meta = spec::compress(ic, b"{}").expect("oracle codec");
                        let img = assemble(ic, &root, &meta, &enc, &data, (n.into(), n.into(), n.into()));
                        let disk = SimDisk::new(img, &pol);
                        let r = sut::open(disk, Face::Async)?.is_err();
                        r
                    }
                    5 => {
                        let meta = spec::compress(ic, b"{}").expect("oracle codec");
                        let img = assemble(ic, &enc, &meta, &[], &data, (n.into(), n.into(), n.into()));
                        let mut d = SimDisk::new(img, &pol);
                        let len = enc.len() as u64;
                        let r = sut::guard("read_directories", || pmtiles2::util::read_directories(&mut d, comp, (127, len), 0, ..).is_err())?;
                        ctx.absorb(&d);
                        r
                    }
                    6 => {
                        let d: Directory = entries_to_crate(&es).into();
                        let mut out = SimDisk::new(Vec::new(), &pol);
                        sut::guard("Directory::to_writer", || d.to_writer(&mut out, comp).is_err())?
                    }
                    _ => {
                        let d: Directory = entries_to_crate(&es).into();
                        let mut out = SimDisk::new(Vec::new(), &pol);
                        sut::guard_async("Directory::to_async_writer", d.to_async_writer(&mut out, comp))?.is_err()
                    }
                };
                ensure!(refused, format!("C19:zero-length-accepted:via-{via}"), "a directory of {n} entries whose entry {at} has length 0 (encoded as {}) was accepted (path {via}, codec {ic})", if wide == 0 { "0".to_string() } else { format!("{wide}·2^32") });
            }
            RejectCase::BadMeta { kind, ic, face, pol, with_tiles } => {
                let (es, data) = if with_tiles { simple_entries(3, u64::from(kind)) } else { (Vec::new(), Vec::new()) };
                let root = spec::compress(ic, &spec::encode_dir(&es)).expect("oracle codec");
                let doc = non_object_json(kind);
                assert!(matches!(serde_json::from_str::<Value>(&doc), Ok(v) if !v.is_object()), "harness: generated metadata must be valid non-object JSON");
                let meta = spec::compress(ic, doc.as_bytes()).expect("oracle codec");
                let n = es.len() as u64;
                let img = assemble(ic, &root, &meta, &[], &data, (es.iter().map(|e| u64::from(e.run_length)).sum(), n, n));
                let disk = SimDisk::new(img.clone(), &pol);
                let r = sut::open(disk, face)?;
                ensure!(r.is_err(), "C19:non-object-metadata-accepted", "archive whose metadata is `{}` opened successfully", crate::scen_life::clip(&non_object_json(kind)));
                for range in REFUSAL_RANGES {
                    let r = sut::open_partial(SimDisk::new(img.clone(), &pol), face, range)?;
                    ctx.bump("refusals_checked_through_partial_opens", 1);
                    ensure!(r.is_err(), "C19:non-object-metadata-accepted-partially", "archive whose metadata is `{}` opened successfully through a range-filtered open with {range:?}", crate::scen_life::clip(&non_object_json(kind)));
                }
                // the same archive with object metadata opens (the rejection is due to the shape)
                let meta_ok = spec::compress(ic, b"{\"a\":1}").expect("oracle codec");
                let img_ok = assemble(ic, &root, &meta_ok, &[], &data, (es.iter().map(|e| u64::from(e.run_length)).sum(), n, n));
                let ok = sut::open(SimDisk::new(img_ok, &pol), face)?;
                if ok.is_err() {
                    ctx.bump("control_archive_rejected", 1);
                }
            }
            RejectCase::UnknownIc { write, with_meta, face, tiles, empty_root } => {
                if write {
                    let mut pm: sut::Pm = pmtiles2::PMTiles::default();
                    pm.internal_compression = pmtiles2::Compression::Unknown;
                    if with_meta {
                        pm.meta_data.insert("k".into(), Value::from(1));
                    }
                    for i in 0..tiles {
                        let _ = pm.add_tile(u64::from(i) * 3, vec![i as u8 + 1; 3]);
                    }
                    let mut out = SimDisk::plain(Vec::new());
                    let r = sut::save(pm, &mut out, face)?;
                    ensure!(r.is_err(), "C19:unknown-compression-written", "writing with internal compression 'unknown' succeeded ({} bytes on the stream)", out.image_len());
                } else {
                    let (es, data) = if empty_root { (Vec::new(), Vec::new()) } else { simple_entries(tiles as usize, 7) };
                    // with empty_root the root section has length 0 (nothing to decode at all)
                    let root = if empty_root { Vec::new() } else { spec::encode_dir(&es) };
                    let meta: &[u8] = if with_meta { b"{}" } else { b"" };
                    let n = es.len() as u64;
                    let img = assemble(0, &root, meta, &[], &data, (n, n, n));
                    let r = sut::open(SimDisk::plain(img.clone()), face)?;
                    ensure!(r.is_err(), "C19:unknown-compression-opened", "an archive declaring internal compression 'unknown' opened successfully (metadata section: {with_meta})");
                    // range-filtered opens are opens too, whatever the range selects (also nothing)
                    for range in REFUSAL_RANGES {
                        let r = sut::open_partial(SimDisk::plain(img.clone()), face, range)?;
                        ctx.bump("refusals_checked_through_partial_opens", 1);
                        ensure!(r.is_err(), "C19:unknown-compression-opened-partially", "an archive declaring internal compression 'unknown' opened successfully through a range-filtered open with {range:?} (metadata section: {with_meta})");
                    }
                }
            }
        }
        Ok(())
    }
    fn shrink(&self, case: &Value) -> Vec<Value> {
        let c: RejectCase = from_value(case);
        let mut out = Vec::new();
        match &c {
            RejectCase::ZeroLen { n, at, seed, ic, via, pol, wide } => {
                if *n > 1 {
                    out.push(to_value(&RejectCase::ZeroLen { n: 1, at: 0, seed: *seed, ic: *ic, via: *via, pol: pol.clone(), wide: *wide }));
                    out.push(to_value(&RejectCase::ZeroLen { n: at + 1, at: *at, seed: *seed, ic: *ic, via: *via, pol: pol.clone(), wide: *wide }));
                }
                if *ic != 1 {
                    out.push(to_value(&RejectCase::ZeroLen { n: *n, at: *at, seed: *seed, ic: 1, via: *via, pol: pol.clone(), wide: *wide }));
                }
                for p in shrink_policy(pol) {
                    out.push(to_value(&RejectCase::ZeroLen { n: *n, at: *at, seed: *seed, ic: *ic, via: *via, pol: p, wide: *wide }));
                }
            }
            RejectCase::BadMeta { kind, ic, face, pol, with_tiles } => {
                for p in shrink_policy(pol) {
                    out.push(to_value(&RejectCase::BadMeta { kind: *kind, ic: *ic, face: *face, pol: p, with_tiles: *with_tiles }));
                }
                if *ic != 1 {
                    out.push(to_value(&RejectCase::BadMeta { kind: *kind, ic: 1, face: *face, pol: pol.clone(), with_tiles: *with_tiles }));
                }
            }
            RejectCase::UnknownIc { .. } => {}
        }
        out
    }
}

#[allow(dead_code)]
fn unused(_: &Ctx) -> u64 {
    hash_str("")
}
