//! Property → plan (scenarios, run counts, claimed level, assumptions).

use std::sync::Arc;

use crate::driver::{Batch, Plan};
use crate::scen::{Scenario, Tier};
use crate::scen_fault::FailStop;
use crate::scen_foreign::{Fixtures, ForeignOpen, LazyOpen, PartialOpen};
use crate::scen_hist::{History, HistoryEnum};
use crate::scen_hostile::{HostileCorpus, HostileMutate, HostileSweep};
use crate::scen_life::Lifecycle;
use crate::scen_misc::{Codec, HeaderFaults, HeaderRandom, Rejections};
use crate::scen_sparse::SparseGiant;
use crate::scen_spill::SpillUtil;
use crate::scen_stream::{Fragmentation, SyncAsync};
use crate::scen_write::{Canonical, CanonicalForeign, StartPos, StartPosDirs, TornWrite};

pub const ALL: &[&str] = &["C01", "C02", "C03", "C04", "C06", "C08", "C09", "C10", "C11", "C12", "C13", "C14", "C15", "C16", "C17", "C18", "C19", "C20"];

const REAL: &[&str] = &[
    "pmtiles2 (whole crate from /repo working tree, features async+verif, overflow-checks and debug-assertions on)",
    "flate2/miniz_oxide, brotli, zstd, async-compression, futures-util, integer-encoding, deku, serde_json, hilbert_2d, ahash",
];
const STUBS: &[&str] = &["byte stream: SimDisk (Read/Write/Seek + AsyncRead/AsyncWrite/AsyncSeek) instead of a file or socket", "async executor: single-task poll loop owned by the simulator instead of tokio"];

fn b(s: impl Scenario + 'static, quick: u64, thorough: u64, tier: Tier) -> Batch {
    Batch { scen: Arc::new(s), runs: if tier == Tier::Quick { quick } else { thorough } }
}

pub fn plan(prop: &str, tier: Tier) -> Option<Plan> {
    let t = tier;
    let mut assumptions: Vec<String> = vec![
        "sampling, not proof: a clean batch is evidence over the explored seeds".into(),
        "codec libraries (flate2, brotli, zstd) are a trusted base shared by crate and oracle".into(),
    ];
    let (p, level, batches): (&'static str, &'static str, Vec<Batch>) = match prop {
        "C01" => ("C01", "exploration", vec![b(Lifecycle { prop: "C01", huge_pct: 1, window_pct: 1 }, 12_000, 300_000, t), b(History { prop: "C01" }, 8000, 300_000, t)]),
        "C02" => {
            assumptions.push("validator written from the v3 specification text; shares no code with the crate".into());
            ("C02", "exploration", vec![b(Lifecycle { prop: "C02", huge_pct: 2, window_pct: 5 }, 10_000, 300_000, t), b(History { prop: "C02" }, 10_000, 600_000, t)])
        }
        "C10" => {
            assumptions.push("64-bit content-hash collisions among generated contents are assumed not to occur".into());
            ("C10", "exploration", vec![b(Lifecycle { prop: "C10", huge_pct: 1, window_pct: 0 }, 6000, 200_000, t), b(History { prop: "C10" }, 20_000, 1_000_000, t), b(HistoryEnum { prop: "C10" }, 0, 0, t)])
        }
        "C04" => ("C04", "exploration", vec![b(HistoryEnum { prop: "C04" }, 0, 0, t), b(History { prop: "C04" }, 40_000, 3_000_000, t), b(SparseGiant { prop: "C04" }, 2000, 150_000, t)]),
        "C06" => ("C06", "exploration", vec![b(SpillUtil, 1800, 120_000, t), b(Lifecycle { prop: "C06", huge_pct: 30, window_pct: 40 }, 400, 20_000, t)]),
        "C03" => {
            assumptions.push("foreign archives come from the independent spec-level writer; each generated image is first accepted by the independent validator".into());
            ("C03", "exploration", vec![b(Fixtures, 0, 0, t), b(ForeignOpen, 8000, 400_000, t), b(SparseGiant { prop: "C03" }, 1500, 100_000, t)])
        }
        "C11" => ("C11", "exploration", vec![b(PartialOpen, 4000, 300_000, t)]),
        "C20" => ("C20", "exploration", vec![b(LazyOpen, 8000, 400_000, t)]),
        "C12" => ("C12", "exploration", vec![b(SyncAsync, 8000, 400_000, t)]),
        "C13" => {
            assumptions.push("schedule space is exactly the property's: transfers >= 1 byte and Pending; no errors, no Interrupted".into());
            ("C13", "exploration", vec![b(Fragmentation, 5000, 200_000, t)])
        }
        "C15" => {
            assumptions.push("verdict uses fail-stop faults only (operation k and all later ones fail); transient and writes-only faults are exploratory and reported under extra_observations".into());
            ("C15", "fault_enumeration", vec![b(FailStop, 320, 12_000, t)])
        }
        "C16" => {
            assumptions.push("cross-process clause: a sample of runs is recomputed by a second pmtsim process with its own hash keys and natural iteration order".into());
            ("C16", "exploration", vec![b(Canonical, 10_000, 500_000, t), b(CanonicalForeign, 3000, 200_000, t), b(SparseGiant { prop: "C16" }, 800, 60_000, t)])
        }
        "C17" => {
            assumptions.push("each write call is atomic (transfers are never split in this scenario), as the property states; the stream is fresh".into());
            ("C17", "fault_enumeration", vec![b(TornWrite, 1200, 60_000, t)])
        }
        "C18" => ("C18", "exploration", vec![b(StartPos, 6000, 300_000, t), b(StartPosDirs, 500, 40_000, t)]),
        "C09" => {
            assumptions.push("the exhaustive sweep over all 2^32 stored coordinate values is not attempted (that is enumeration, not simulation); stored values are sampled incl. boundaries".into());
            ("C09", "exploration", vec![b(HeaderFaults, 0, 0, t), b(HeaderRandom, 400_000, 100_000_000, t)])
        }
        "C14" => {
            assumptions.push("gzip output is additionally decoded by CPython zlib on a sample when python3 is present".into());
            ("C14", "exploration", vec![b(Codec, 6000, 300_000, t)])
        }
        "C19" => ("C19", "exploration", vec![b(Rejections, 12_000, 1_000_000, t), b(History { prop: "C19" }, 12_000, 1_000_000, t), b(SparseGiant { prop: "C19" }, 1500, 100_000, t)]),
        "C08" => {
            assumptions.push("inputs whose directories declare more than 2^20 tiles/steps (measured by the iterative reference walker) are outside the claim and skipped (counted)".into());
            assumptions.push("a single allocation request above 8 GiB is refused by the harness allocator (deterministic stand-in for 'aborting on an absurd allocation')".into());
            ("C08", "exploration", vec![b(HostileCorpus, 0, 0, t), b(HostileSweep, 0, 0, t), b(HostileMutate, 40_000, 3_000_000, t)])
        }
        _ => return None,
    };
    Some(Plan { prop: p, level, batches, assumptions, real: REAL.to_vec(), stubs: STUBS.to_vec() })
}

/// Scenario lookup for replay files.
pub fn find(prop: &str, scen: &str) -> Option<Arc<dyn Scenario>> {
    for tier in [Tier::Quick, Tier::Thorough] {
        if let Some(p) = plan(prop, tier) {
            for b in p.batches {
                if b.scen.name() == scen {
                    return Some(b.scen);
                }
            }
        }
    }
    None
}
