//! Lifecycle scenario: build through the public API → save onto a simulated disk under a benign
//! schedule → restart (only the disk image survives) → reopen / parse independently.
//! Serves C01 (round trip vs model), C02 (independent validator), C10 (dedup / run-length on the
//! image), C06 (archive-level leaf spill).

use serde::{Deserialize, Serialize};
use serde_json::Value;

use crate::case::{draw_archive, draw_size, Archive, Face, Model, Sched, SizeClass};
use crate::disk::SimDisk;
use crate::rng::Rng;
use crate::scen::{case_sig, from_value, shrink_archive, shrink_policy, to_value, Ctx, Scenario, Tier};
use crate::spec;
use crate::sut::{self, V};
use crate::{ensure, vio};

#[derive(Clone, Debug, Serialize, Deserialize)]
pub struct LifeCase {
    pub a: Archive,
    pub wface: Face,
    pub rface: Face,
    pub sched: Sched,
    pub scramble: u64,
}

pub struct Lifecycle {
    pub prop: &'static str,
    /// percentage of runs that use a leaf-spilling archive
    pub huge_pct: u64,
    /// percentage of runs whose root directory is steered to the edge of the 16 KiB budget
    pub window_pct: u64,
}

pub fn draw_ic(rng: &mut Rng, huge: bool) -> u8 {
    if huge {
        // brotli quality 11 on 100 KiB directories is slow: keep its share small
        *rng.pick(&[1u8, 2, 2, 4, 4, 1, 2, 4, 3, 2])
    } else {
        1 + rng.below(4) as u8
    }
}

impl Scenario for Lifecycle {
    fn name(&self) -> &'static str {
        "lifecycle"
    }
    fn rule(&self) -> String {
        "seeded lifecycle runs (archive × codec × sync/async writer and reader × transfer/pending policies); distinct = distinct serialized cases; non-trivial = at least one tile and a non-plain schedule on writer or reader disk".into()
    }
    fn generate(&self, rng: &mut Rng, tier: Tier, run: u64) -> Value {
        // (C01: the same archive once per batch through the round trip, writer face by the seed)
        let titanic = (self.prop == "C02" && (run == 1 || (run == 3 && tier == Tier::Thorough))) || (self.prop == "C01" && run == 1);
        let size = if titanic {
            // one archive per batch (async writer; thorough: one more through the sync writer)
            // whose first pointer root is over the budget, so the leaf size has to grow
            SizeClass::Titanic
        } else if (run == 0 && (self.prop == "C01" || self.prop == "C10")) || (run == 2 && self.prop == "C02") {
            // one archive per batch whose single root directory holds > 2^18 entries
            SizeClass::MegaRegular
        } else if run == 0 && (self.prop == "C02" || self.prop == "C06") {
            // exactly one archive per batch that is large enough for the leaf-size loop to matter
            SizeClass::Colossal
        } else if rng.chance(self.window_pct) {
            SizeClass::Window
        } else if self.prop == "C10" && rng.below(3000) == 0 {
            SizeClass::Gigantic
        } else if self.prop == "C10" && rng.below(400) == 0 {
            SizeClass::LongRun
        } else if (self.prop == "C01" || self.prop == "C02") && rng.below(2500) == 0 {
            SizeClass::ManyRegular
        } else {
            draw_size(rng, self.huge_pct)
        };
        let ic = if size == SizeClass::Colossal || size == SizeClass::Titanic { 1 } else if size == SizeClass::Gigantic { *rng.pick(&[1u8, 2, 4]) } else if size == SizeClass::ManyRegular { *rng.pick(&[2u8, 4, 2, 4, 1]) } else if size == SizeClass::MegaRegular { *rng.pick(&[2u8, 4, 4]) } else { draw_ic(rng, size == SizeClass::Huge || size == SizeClass::Window) };
        let mut a = draw_archive(rng, size, ic);
        if (4..8).contains(&run) && a.gen.is_none() && a.tiles.len() < 3000 {
            // runs 4-7: a family of large tiles (above 64 KiB / 256 KiB / 1 MiB) of one length
            // that differ from each other in a single byte somewhere inside, one of them twice
            let len = match run {
                4 => 65_537 + rng.below(100_000) as u32,
                5 | 6 => (256 << 10) + 1 + rng.below(500_000) as u32,
                _ => (1 << 20) + 1 + rng.below(300_000) as u32,
            };
            let mut id = a.tiles.iter().map(|t| t.id).max().map_or(0, |m| m + 1 + rng.below(50));
            let n = 3 + rng.below(4) as u32;
            for s in 0..=n {
                let seed = if s == n { 1 } else { s };
                if id < crate::spec::max_valid_id() {
                    a.tiles.push(crate::case::Tile { id, c: crate::case::Cont { k: 4, seed, len } });
                }
                id += 1 + rng.below(3);
            }
        }
        let mut wface = Face::draw(rng);
        let rface = Face::draw(rng);
        let mut sched = if rng.chance(90) { Sched::draw(rng, wface, rface) } else { Sched::plain() };
        if titanic {
            if self.prop == "C02" {
                wface = if run == 1 { Face::Async } else { Face::Sync };
            }
            sched = Sched::plain();
        }
        to_value(&LifeCase { a, wface, rface, sched, scramble: rng.next_u64() })
    }
    fn execute(&self, case: &Value, ctx: &mut Ctx) -> V<()> {
        let mut c: LifeCase = from_value(case);
        c.a.materialise();
        let nontrivial = !c.a.tiles.is_empty() && !(c.sched.w.is_plain() && c.sched.r.is_plain());
        if nontrivial {
            ctx.sig(case_sig(case));
        }
        ctx.evals += 1;
        let model = Model::of(&c.a);
        let image = write_archive(&c.a, c.wface, &c.sched, c.scramble, ctx, self.prop)?;
        ctx.bump(&format!("codec_{}", c.a.set.ic), 1);
        ctx.bump(if c.wface == Face::Async { "writer_async" } else { "writer_sync" }, 1);
        match self.prop {
            "C01" => check_roundtrip(&c, &model, image, ctx),
            "C02" => check_valid(&c, &model, &image, ctx),
            "C10" => check_dedup(&model, &image, ctx),
            "C06" => check_spill_archive(&c, &model, &image, ctx),
            other => panic!("lifecycle: no oracle for {other}"),
        }
    }
    fn shrink(&self, case: &Value) -> Vec<Value> {
        let c: LifeCase = from_value(case);
        let mut out = Vec::new();
        for a in shrink_archive(&c.a) {
            out.push(to_value(&LifeCase { a, ..c.clone() }));
        }
        for w in shrink_policy(&c.sched.w) {
            out.push(to_value(&LifeCase { sched: Sched { w, r: c.sched.r.clone() }, ..c.clone() }));
        }
        for r in shrink_policy(&c.sched.r) {
            out.push(to_value(&LifeCase { sched: Sched { w: c.sched.w.clone(), r }, ..c.clone() }));
        }
        if c.wface == Face::Async {
            out.push(to_value(&LifeCase { wface: Face::Sync, ..c.clone() }));
        }
        if c.rface == Face::Async {
            out.push(to_value(&LifeCase { rface: Face::Sync, ..c.clone() }));
        }
        out
    }
}

/// Build + save on a fresh disk; returns the durable image.
pub fn write_archive(a: &Archive, face: Face, sched: &Sched, scramble: u64, ctx: &mut Ctx, prop: &str) -> V<Vec<u8>> {
    let pm = sut::build(a)?;
    pmtiles2::verif::set_scramble_seed(Some(scramble));
    let mut out = SimDisk::new(Vec::new(), &sched.w);
    let r = sut::save(pm, &mut out, face);
    pmtiles2::verif::set_scramble_seed(None);
    ctx.absorb(&out);
    match r? {
        Ok(()) => {}
        Err(e) => vio!(format!("{prop}:save-failed"), "writing a valid archive on a fault-free stream failed: {e}"),
    }
    ctx.trace(|| format!("saved {} bytes in {} stream ops ({:?})", out.image_len(), out.nops(), face));
    Ok(out.image())
}

fn check_roundtrip(c: &LifeCase, model: &Model, image: Vec<u8>, ctx: &mut Ctx) -> V<()> {
    let p = "C01";
    let rd = SimDisk::new(image, &c.sched.r);
    let handle = rd.clone();
    let mut pm = match sut::open(rd, c.rface)? {
        Ok(pm) => pm,
        Err(e) => vio!("C01:reopen-failed", "the written archive does not open: {e}"),
    };
    // ids / count
    let ids = sut::ids_sorted(&pm);
    let want: Vec<u64> = model.tiles.keys().copied().collect();
    if ids != want {
        let missing: Vec<&u64> = want.iter().filter(|i| ids.binary_search(i).is_err()).take(5).collect();
        let extra: Vec<&u64> = ids.iter().filter(|i| want.binary_search(i).is_err()).take(5).collect();
        vio!("C01:id-set", "tile id set differs: {} read back vs {} added; missing {:?} extra {:?}", ids.len(), want.len(), missing, extra);
    }
    ensure!(pm.num_tiles() == want.len(), "C01:count", "num_tiles() = {} but {} tiles were added", pm.num_tiles(), want.len());
    // contents
    let mut rng = Rng::new(c.scramble ^ 0x51);
    let all = want.len() <= 2000;
    for (i, (id, bytes)) in model.tiles.iter().enumerate() {
        if !all && !(i % 37 == 0 || rng.chance(3)) {
            continue;
        }
        let got = match sut::get(&mut pm, *id, c.rface)? {
            Ok(g) => g,
            Err(e) => vio!("C01:tile-read-error", "reading tile {id} failed: {e}"),
        };
        match got {
            Some(g) if &g == bytes => {}
            Some(g) => vio!("C01:tile-bytes", "tile {id}: {} bytes read back differ from the {} bytes added", g.len(), bytes.len()),
            None => vio!("C01:tile-missing", "tile {id} reads back as absent"),
        }
        ctx.bump("tiles_compared", 1);
        // by coordinates, through the independent Hilbert implementation
        if i % 5 == 0 {
            if let Some((z, x, y)) = spec::id_to_zxy(*id) {
                let got = match sut::get_xyz(&mut pm, x, y, z, c.rface)? {
                    Ok(g) => g,
                    Err(e) => vio!("C01:tile-read-error", "reading tile {z}/{x}/{y} failed: {e}"),
                };
                ensure!(got.as_ref() == Some(bytes), "C01:tile-by-xyz", "get_tile({x},{y},{z}) (= id {id} by the specification's Hilbert curve) does not return the bytes added for id {id}");
                ctx.bump("tiles_compared_by_xyz", 1);
            }
        }
    }
    // absent ids
    let mut probes: Vec<u64> = vec![0, 1, u64::MAX, spec::max_valid_id(), spec::max_valid_id() + 1];
    for id in want.iter().take(50) {
        probes.push(id.wrapping_add(1));
        probes.push(id.wrapping_sub(1));
    }
    for z in 1..=32u8 {
        probes.push(spec::zoom_base(z));
        probes.push(spec::zoom_base(z) - 1);
    }
    for _ in 0..8 {
        probes.push(rng.next_u64());
    }
    for id in probes {
        if model.tiles.contains_key(&id) {
            continue;
        }
        match sut::get(&mut pm, id, c.rface)? {
            Ok(None) => {}
            Ok(Some(b)) => vio!("C01:phantom-tile", "id {id} was never added but reads back {} bytes", b.len()),
            Err(e) => vio!("C01:phantom-tile", "id {id} was never added but reading it fails: {e}"),
        }
        ctx.bump("absent_probes", 1);
    }
    // metadata + settings
    let meta = c.a.meta.map();
    ensure!(pm.meta_data == meta, "C01:metadata", "metadata differs after the round trip: wrote {} read {}", clip(&serde_json::to_string(&meta).unwrap_or_default()), clip(&serde_json::to_string(&pm.meta_data).unwrap_or_default()));
    let o = sut::observe_settings(&pm);
    let s = &c.a.set;
    ensure!(
        (o.tt, o.tc, o.ic, o.minz, o.maxz, o.cz) == (s.tt, s.tc, s.ic, s.minz, s.maxz, s.cz),
        "C01:settings",
        "header settings differ: set (tt,tc,ic,minz,maxz,cz)={:?} read {:?}",
        (s.tt, s.tc, s.ic, s.minz, s.maxz, s.cz),
        (o.tt, o.tc, o.ic, o.minz, o.maxz, o.cz)
    );
    for i in 0..6 {
        check_coord(p, s.coord(i), o.coords[i], ctx)?;
    }
    ctx.absorb(&handle);
    Ok(())
}

pub fn clip(s: &str) -> String {
    if s.len() > 160 {
        let mut cut = 160;
        while !s.is_char_boundary(cut) {
            cut -= 1;
        }
        format!("{}…", &s[..cut])
    } else {
        s.to_string()
    }
}

/// `got` must be n/1e7 for a stored integer n that is a nearest integer to set·1e7 (exact rule).
pub fn check_coord(p: &str, set: f64, got: f64, ctx: &mut Ctx) -> V<()> {
    let Some((lo, hi)) = spec::nearest_e7(set) else {
        return Ok(());
    };
    if lo != hi {
        ctx.bump("probe_tie_band_coordinates", 1);
    }
    let n = (got * 1e7).round();
    let ok = got.is_finite() && (n as i64) >= lo && (n as i64) <= hi && (got - n / 1e7).abs() <= 1e-12;
    ensure!(ok, format!("{p}:coordinate"), "coordinate set to {set:?} degrees came back as {got:?}; nearest multiple of 1e-7 is {}e-7", lo);
    Ok(())
}

fn check_valid(c: &LifeCase, model: &Model, image: &[u8], ctx: &mut Ctx) -> V<()> {
    let v = match spec::validate(image) {
        Ok(v) => v,
        Err(e) => vio!(format!("C02:invalid:{}", class_of(&e)), "independent validator rejects the written archive: {e}"),
    };
    if v.walk.max_depth > 0 {
        ctx.bump("probe_leaf_spill_archives", 1);
    }
    if (16_000..=16_257).contains(&v.header.root_length) {
        ctx.bump("probe_root_within_257_bytes_of_budget", 1);
    }
    ensure!(v.header.ic == c.a.set.ic, "C02:declared-codec", "header declares internal compression {} but {} was requested", v.header.ic, c.a.set.ic);
    // the directories address exactly the added ids
    let want: Vec<u64> = model.tiles.keys().copied().collect();
    let have: Vec<u64> = v.walk.tiles.keys().copied().collect();
    ensure!(want == have, "C02:addressed-set", "directories address {} ids, {} were added", have.len(), want.len());
    // spec lookup returns the added bytes
    let all = want.len() <= 600;
    let mut rng = Rng::new(c.scramble ^ 0x77);
    for (i, (id, bytes)) in model.tiles.iter().enumerate() {
        if !all && !(i % 97 == 0 || rng.chance(1)) {
            continue;
        }
        match spec::lookup(image, &v.header, *id) {
            Ok(Some((off, len))) => {
                let got = spec::tile_bytes(image, &v.header, off, len).map_err(|e| sut::Violation::new("C02:lookup-range", e))?;
                ensure!(got == &bytes[..], "C02:lookup-bytes", "specification lookup of tile {id} returns {} bytes that differ from the {} bytes added", got.len(), bytes.len());
            }
            Ok(None) => vio!("C02:lookup-missing", "specification lookup does not find added tile {id}"),
            Err(e) => vio!("C02:lookup-error", "specification lookup of tile {id} fails: {e}"),
        }
        ctx.bump("spec_lookups", 1);
    }
    for id in want.iter().take(20).map(|i| i.wrapping_add(1)).chain([u64::MAX, 0]) {
        if model.tiles.contains_key(&id) {
            continue;
        }
        match spec::lookup(image, &v.header, id) {
            Ok(None) => {}
            other => vio!("C02:lookup-phantom", "specification lookup of absent tile {id} gives {other:?}"),
        }
    }
    ctx.bump("validated_images", 1);
    ctx.bump("validated_directories", v.walk.dirs.len() as u64);
    // a sample also goes through the second, unrelated reader (Python, stdlib only)
    if c.scramble % 40 == 0 && (v.header.ic == 1 || v.header.ic == 2) && model.tiles.len() <= 3000 {
        python_reader_check(model, image, ctx)?;
    }
    Ok(())
}

/// Second independent reader: /verif/py/pmt_read.py (codec none/gzip). Missing python3 is not an
/// error (counted); a disagreement is a violation.
fn python_reader_check(model: &Model, image: &[u8], ctx: &mut Ctx) -> V<()> {
    use std::io::Write;
    use std::process::{Command, Stdio};
    let script = crate::driver::verif_root().join("py").join("pmt_read.py");
    let child = Command::new("python3").arg(&script).stdin(Stdio::piped()).stdout(Stdio::piped()).stderr(Stdio::piped()).spawn();
    let Ok(mut child) = child else {
        ctx.bump("python_unavailable", 1);
        return Ok(());
    };
    let tiles: Vec<(u64, usize, u32)> = model
        .tiles
        .iter()
        .map(|(id, b)| {
            let mut c = flate2::Crc::new();
            c.update(b);
            (*id, b.len(), c.sum())
        })
        .collect();
    let absent: Vec<u64> = model.tiles.keys().take(10).map(|i| i + 1).filter(|i| !model.tiles.contains_key(i)).collect();
    let want = serde_json::json!({"tiles": tiles, "absent": absent}).to_string();
    if let Some(mut si) = child.stdin.take() {
        let _ = si.write_all(&(image.len() as u64).to_le_bytes());
        let _ = si.write_all(image);
        let _ = si.write_all(want.as_bytes());
    }
    let Ok(out) = child.wait_with_output() else {
        ctx.bump("python_unavailable", 1);
        return Ok(());
    };
    let text = String::from_utf8_lossy(&out.stdout).trim().to_string();
    if text.starts_with("OK ") {
        ctx.bump("images_validated_by_python_reader", 1);
        return Ok(());
    }
    if text.starts_with("SKIP") || (!out.status.success() && text.is_empty() && String::from_utf8_lossy(&out.stderr).contains("No such file")) {
        ctx.bump("python_unavailable", 1);
        return Ok(());
    }
    ensure!(false, "C02:python-reader-disagrees", "the second independent reader (py/pmt_read.py) rejects the archive: {text} {}", String::from_utf8_lossy(&out.stderr).lines().last().unwrap_or(""));
    Ok(())
}

pub fn class_of(e: &str) -> String {
    // first few words without numbers: stable across shrinking
    let s: String = e.chars().filter(|c| !c.is_ascii_digit()).collect();
    s.split_whitespace().take(4).collect::<Vec<_>>().join("-")
}

fn check_dedup(model: &Model, image: &[u8], ctx: &mut Ctx) -> V<()> {
    let h = spec::parse_header(image).map_err(|e| sut::Violation::new("C10:unparseable", e))?;
    let w = spec::walk(image, &h, spec::Limits::VALID).map_err(|e| sut::Violation::new("C10:unparseable", format!("{e:?}")))?;
    let distinct_bytes = model.distinct_bytes();
    ensure!(h.data_length == distinct_bytes, "C10:data-length", "tile-data section is {} bytes; the distinct contents sum to {}", h.data_length, distinct_bytes);
    ensure!(h.n_contents == model.distinct_contents() as u64, "C10:content-counter", "header counts {} tile contents; there are {} distinct contents", h.n_contents, model.distinct_contents());
    // equal content ⇔ equal (offset,length); different content ⇒ disjoint ranges
    let mut by_content: std::collections::HashMap<&Vec<u8>, (u64, u32)> = std::collections::HashMap::new();
    for (id, bytes) in &model.tiles {
        let Some(&(off, len)) = w.tiles.get(id) else {
            vio!("C10:missing", "tile {id} not addressed by the written directories");
        };
        match by_content.get(bytes) {
            Some(&(o2, l2)) => ensure!((o2, l2) == (off, len), "C10:second-copy", "tile {id} has the same content as another tile but is stored at {off}+{len} instead of {o2}+{l2}"),
            None => {
                by_content.insert(bytes, (off, len));
            }
        }
    }
    let mut ranges: Vec<(u64, u64)> = by_content.values().map(|(o, l)| (*o, *o + u64::from(*l))).collect();
    ranges.sort_unstable();
    for p in ranges.windows(2) {
        ensure!(p[0].1 <= p[1].0, "C10:overlap", "distinct contents overlap in the tile-data section: {:?} and {:?}", p[0], p[1]);
    }
    // no two adjacent entries could be merged further
    for p in w.tile_entries.windows(2) {
        let (a, b) = (p[0], p[1]);
        if a.tile_id + u64::from(a.run_length) == b.tile_id && a.offset == b.offset && a.length == b.length {
            vio!("C10:mergeable", "entries for tiles {} (run {}) and {} share content and are adjacent but were not merged", a.tile_id, a.run_length, b.tile_id);
        }
    }
    // runs only cover ids that were added with that content (exactness)
    let addressed: u64 = w.tile_entries.iter().map(|e| u64::from(e.run_length)).sum();
    ensure!(addressed == model.tiles.len() as u64, "C10:run-exactness", "run lengths address {} ids; {} were added", addressed, model.tiles.len());
    if w.tile_entries.iter().any(|e| e.run_length > 1) {
        ctx.bump("probe_archives_with_runs", 1);
    }
    if (model.distinct_contents() as u64) < model.tiles.len() as u64 {
        ctx.bump("probe_archives_with_duplicates", 1);
    }
    ctx.bump("images_checked", 1);
    Ok(())
}

fn check_spill_archive(c: &LifeCase, model: &Model, image: &[u8], ctx: &mut Ctx) -> V<()> {
    let v = match spec::validate(image) {
        Ok(v) => v,
        Err(e) => vio!(format!("C06:archive-invalid:{}", class_of(&e)), "independent validator rejects the written archive: {e}"),
    };
    let h = &v.header;
    ensure!(h.root_length <= 16_257, "C06:root-budget", "root directory is {} bytes (> 16257)", h.root_length);
    let root = &v.walk.dirs[0];
    if v.walk.max_depth == 0 {
        ensure!(h.leaf_length == 0, "C06:leaf-section-not-empty", "entry list fits the root but the leaf section has {} bytes", h.leaf_length);
    } else {
        ctx.bump("probe_leaf_spill_archives", 1);
        ensure!(root.entries.iter().all(|e| e.run_length == 0), "C06:root-mixed", "after a spill the root must contain only leaf pointers");
        // pointers: first id, cumulative offsets, exact lengths
        let mut expect_off = 0u64;
        let leaves: Vec<&spec::DirInfo> = v.walk.dirs.iter().filter(|d| d.depth == 1).collect();
        ensure!(leaves.len() == root.entries.len(), "C06:leaf-count", "{} pointers but {} leaves walked", root.entries.len(), leaves.len());
        for (p, leaf) in root.entries.iter().zip(&leaves) {
            ensure!(p.offset == expect_off, "C06:pointer-offset", "leaf pointer for tile {} has offset {} (expected {})", p.tile_id, p.offset, expect_off);
            ensure!(Some(p.tile_id) == leaf.entries.first().map(|e| e.tile_id), "C06:pointer-first-id", "leaf pointer tile id {} is not its leaf's first tile id {:?}", p.tile_id, leaf.entries.first().map(|e| e.tile_id));
            expect_off += u64::from(p.length);
        }
        ensure!(expect_off == h.leaf_length, "C06:leaf-section-length", "pointer lengths sum to {} but the leaf section has {} bytes", expect_off, h.leaf_length);
    }
    let want: Vec<u64> = model.tiles.keys().copied().collect();
    let have: Vec<u64> = v.walk.tiles.keys().copied().collect();
    ensure!(want == have, "C06:mapping", "resolving root and leaves yields {} ids, {} were added", have.len(), want.len());
    let _ = c;
    ctx.bump("archives_checked", 1);
    Ok(())
}
