//! Adapter to the system under test: every call into `pmtiles2` goes through here, so that
//! panics, lost wake-ups and runaway polls are turned into violations with a class tag.

use std::any::Any;
use std::cell::RefCell;
use std::future::Future;
use std::io;
use std::panic::{catch_unwind, AssertUnwindSafe};

use pmtiles2::{Compression, PMTiles, TileType};

use crate::case::{Archive, Face, RangeSpec, Settings};
use crate::disk::SimDisk;
use crate::exec::{self, ExecError};

#[derive(Clone, Debug, PartialEq, Eq)]
pub struct Violation {
    /// stable tag: oracle + failure kind (used to decide "same violation" while minimising and
    /// to match known findings)
    pub class: String,
    pub detail: String,
}

impl Violation {
    pub fn new(class: impl Into<String>, detail: impl Into<String>) -> Self {
        let mut d: String = detail.into();
        if d.len() > 600 {
            let mut cut = 600;
            while !d.is_char_boundary(cut) {
                cut -= 1;
            }
            d.truncate(cut);
            d.push('…');
        }
        Violation { class: class.into(), detail: d }
    }
}

pub type V<T> = Result<T, Violation>;

#[macro_export]
macro_rules! vio {
    ($class:expr, $($arg:tt)*) => {
        return Err($crate::sut::Violation::new($class, format!($($arg)*)))
    };
}

#[macro_export]
macro_rules! ensure {
    ($cond:expr, $class:expr, $($arg:tt)*) => {
        if !($cond) {
            return Err($crate::sut::Violation::new($class, format!($($arg)*)));
        }
    };
}

thread_local! {
    static LAST_PANIC: RefCell<Option<String>> = const { RefCell::new(None) };
    static IN_SUT: RefCell<u32> = const { RefCell::new(0) };
}

/// Installs a panic hook that records the message (with location) instead of printing it.
pub fn install_panic_hook() {
    std::panic::set_hook(Box::new(|info| {
        let loc = info.location().map(|l| format!("{}:{}", l.file(), l.line())).unwrap_or_default();
        let msg = if let Some(s) = info.payload().downcast_ref::<&str>() {
            (*s).to_string()
        } else if let Some(s) = info.payload().downcast_ref::<String>() {
            s.clone()
        } else {
            "<non-string panic>".to_string()
        };
        let inside = IN_SUT.with(|c| *c.borrow() > 0);
        LAST_PANIC.with(|p| *p.borrow_mut() = Some(format!("{msg} @ {loc}")));
        if !inside {
            eprintln!("HARNESS PANIC: {msg} @ {loc}");
        }
    }));
}

pub fn take_panic_message(payload: Box<dyn Any + Send>) -> String {
    let from_hook = LAST_PANIC.with(|p| p.borrow_mut().take());
    from_hook.unwrap_or_else(|| {
        if let Some(s) = payload.downcast_ref::<&str>() {
            (*s).to_string()
        } else if let Some(s) = payload.downcast_ref::<String>() {
            s.clone()
        } else {
            "<panic>".into()
        }
    })
}

/// Shortens a panic message to a stable class fragment (no addresses / numbers of allocations).
pub fn panic_kind(msg: &str) -> String {
    let m = msg.split(" @ ").next().unwrap_or(msg);
    let loc = msg.split(" @ ").nth(1).unwrap_or("");
    let file = loc.rsplit('/').next().unwrap_or(loc);
    let file = file.split(':').next().unwrap_or(file);
    let short: String = m.chars().filter(|c| !c.is_ascii_digit()).take(48).collect();
    format!("{}@{}", short.trim(), file)
}

/// Runs a call into the crate; a panic becomes a violation `panic:<what>:<kind>`.
pub fn guard<T>(what: &str, f: impl FnOnce() -> T) -> V<T> {
    IN_SUT.with(|c| *c.borrow_mut() += 1);
    exec::new_call_epoch();
    let r = catch_unwind(AssertUnwindSafe(f));
    IN_SUT.with(|c| *c.borrow_mut() -= 1);
    match r {
        Ok(v) => Ok(v),
        Err(p) => {
            let msg = take_panic_message(p);
            // a panic raised by the harness's own code (relative source path) is a harness
            // defect, never a finding against the crate: let it propagate to the driver
            if msg.split(" @ ").nth(1).is_some_and(|loc| loc.starts_with("src/")) {
                LAST_PANIC.with(|l| *l.borrow_mut() = Some(msg.clone()));
                std::panic::resume_unwind(Box::new(msg));
            }
            Err(Violation::new(format!("panic:{}", panic_kind(&msg)), format!("{what} panicked: {msg}")))
        }
    }
}

/// Runs an async call into the crate under the simulator's executor.
pub fn guard_async<T>(what: &str, fut: impl Future<Output = T>) -> V<T> {
    match guard(what, || exec::block_on(fut))? {
        Ok(v) => Ok(v),
        Err(ExecError::LostWake { polls }) => Err(Violation::new(format!("lost-wakeup:{what}"), format!("{what}: future returned Pending after {polls} polls with no wake-up outstanding"))),
        Err(ExecError::Runaway { polls }) => Err(Violation::new(format!("runaway:{what}"), format!("{what}: not finished after {polls} polls"))),
    }
}

/// Performs a handful of calls that the crate must refuse (each returns `Err`) on the current
/// thread. A failed call must leave no trace in what later calls do; state that leaks across
/// calls (thread-local scratch buffers, caches) shows up in the case that follows.
pub fn poison_thread(seed: u64) {
    use pmtiles2::{Directory, Entry};
    let mut r = crate::rng::Rng::new(seed);
    let n = 2 + r.usize_below(40);
    let mut es: Vec<Entry> = (0..n).map(|i| Entry { tile_id: 3 * i as u64, offset: 7 * i as u64, length: 5 + i as u32, run_length: 1 }).collect();
    let bad = 1 + r.usize_below(n - 1);
    es[bad].length = 0;
    static DAMAGED: std::sync::OnceLock<Vec<Vec<u8>>> = std::sync::OnceLock::new();
    let damaged = DAMAGED.get_or_init(|| {
        let junk: Vec<u8> = (0..3000u32).map(|i| (i * 7 + i / 13) as u8).collect();
        (1..=4u8)
            .map(|ic| {
                let mut z = crate::spec::compress(ic, &junk).unwrap_or_default();
                z.truncate(z.len() * 2 / 3);
                z
            })
            .collect()
    });
    // one codec per call keeps the prelude cheap (brotli's encoder set-up dominates otherwise)
    let ic = 1 + (seed % 4) as u8;
    let _ = guard("poison", || {
        // serialisation of a valid directory onto a stream whose first write fails
        let mut ok = es.clone();
        ok[bad].length = 9;
        let d2: Directory = ok.into();
        let mut dead = SimDisk::plain(Vec::new()).fault(crate::disk::Fault::FailStop { at: 0, kind: crate::disk::FKind::Other });
        let _ = d2.to_writer(&mut dead, comp(ic));
        // a damaged compressed stream through the one-shot decoder and the directory parser
        let z = &damaged[(ic - 1) as usize];
        let _ = pmtiles2::util::decompress_all(comp(ic), z);
        let _ = Directory::from_bytes(z, comp(ic));
        // an archive writer whose stream fails early, an empty add, garbage handed to the reader
        let mut pm: Pm = PMTiles::default();
        pm.internal_compression = comp(if ic == 3 { 2 } else { ic });
        let _ = pm.add_tile(1, vec![1u8, 2, 3]);
        let _ = pm.add_tile(2, Vec::<u8>::new());
        let mut dead = SimDisk::plain(Vec::new()).fault(crate::disk::Fault::FailStop { at: 1, kind: crate::disk::FKind::Other });
        let _ = pm.to_writer(&mut dead);
        let _ = PMTiles::from_bytes(&b"PMTiles\x03 not really an archive"[..]);
        // a header the serialiser refuses (a version other than 3), on either face
        let mut h = pmtiles2::Header::default();
        h.spec_version = 2 + (seed % 200) as u8 + u8::from(seed % 200 >= 1);
        let mut sink: Vec<u8> = Vec::new();
        let _ = h.to_writer(&mut sink);
        if seed % 3 == 0 {
            let mut out = SimDisk::plain(Vec::new());
            let _ = exec::block_on(h.to_async_writer(&mut out));
        }
        // last (so that nothing after it can tidy up): a serialisation that is refused half-way
        // (length 0 at a later index)
        let d: Directory = es.clone().into();
        let mut sink: Vec<u8> = Vec::new();
        let _ = d.to_writer(&mut sink, comp(ic));
    });
}

// ---------------------------------------------------------------------------------------------
// enum codes

pub fn comp(c: u8) -> Compression {
    match c {
        1 => Compression::None,
        2 => Compression::GZip,
        3 => Compression::Brotli,
        4 => Compression::ZStd,
        _ => Compression::Unknown,
    }
}
pub fn comp_code(c: Compression) -> u8 {
    match c {
        Compression::Unknown => 0,
        Compression::None => 1,
        Compression::GZip => 2,
        Compression::Brotli => 3,
        Compression::ZStd => 4,
    }
}
pub fn ttype(c: u8) -> TileType {
    match c {
        1 => TileType::Mvt,
        2 => TileType::Png,
        3 => TileType::Jpeg,
        4 => TileType::WebP,
        5 => TileType::AVIF,
        _ => TileType::Unknown,
    }
}
pub fn ttype_code(t: TileType) -> u8 {
    match t {
        TileType::Unknown => 0,
        TileType::Mvt => 1,
        TileType::Png => 2,
        TileType::Jpeg => 3,
        TileType::WebP => 4,
        TileType::AVIF => 5,
    }
}

pub type Pm = PMTiles<SimDisk>;

pub fn apply_settings(pm: &mut Pm, s: &Settings) {
    pm.tile_type = ttype(s.tt);
    pm.tile_compression = comp(s.tc);
    pm.internal_compression = comp(s.ic);
    pm.min_zoom = s.minz;
    pm.max_zoom = s.maxz;
    pm.center_zoom = s.cz;
    pm.min_longitude = s.coord(0);
    pm.min_latitude = s.coord(1);
    pm.max_longitude = s.coord(2);
    pm.max_latitude = s.coord(3);
    pm.center_longitude = s.coord(4);
    pm.center_latitude = s.coord(5);
}

#[derive(Clone, Debug, PartialEq)]
pub struct ObsSettings {
    pub tt: u8,
    pub tc: u8,
    pub ic: u8,
    pub minz: u8,
    pub maxz: u8,
    pub cz: u8,
    pub coords: [f64; 6],
}

pub fn observe_settings(pm: &Pm) -> ObsSettings {
    ObsSettings {
        tt: ttype_code(pm.tile_type),
        tc: comp_code(pm.tile_compression),
        ic: comp_code(pm.internal_compression),
        minz: pm.min_zoom,
        maxz: pm.max_zoom,
        cz: pm.center_zoom,
        coords: [pm.min_longitude, pm.min_latitude, pm.max_longitude, pm.max_latitude, pm.center_longitude, pm.center_latitude],
    }
}

/// Builds an in-memory archive through the public API.
pub fn build(a: &Archive) -> V<Pm> {
    guard("build", || {
        let mut pm: Pm = PMTiles::default();
        apply_settings(&mut pm, &a.set);
        pm.meta_data = a.meta.map();
        for t in &a.tiles {
            pm.add_tile(t.id, t.c.bytes()).expect("add_tile of non-empty content must succeed");
        }
        pm
    })
}

pub fn save(pm: Pm, out: &mut SimDisk, face: Face) -> V<io::Result<()>> {
    match face {
        Face::Sync => guard("to_writer", || pm.to_writer(out)),
        Face::Async => guard_async("to_async_writer", pm.to_async_writer(out)),
    }
}

pub fn open(disk: SimDisk, face: Face) -> V<io::Result<Pm>> {
    match face {
        Face::Sync => guard("from_reader", || PMTiles::from_reader(disk)),
        Face::Async => guard_async("from_async_reader", PMTiles::from_async_reader(disk)),
    }
}

pub fn open_partial(disk: SimDisk, face: Face, range: RangeSpec) -> V<io::Result<Pm>> {
    match face {
        Face::Sync => guard("from_reader_partially", || PMTiles::from_reader_partially(disk, range.bounds())),
        Face::Async => guard_async("from_async_reader_partially", PMTiles::from_async_reader_partially(disk, range.bounds())),
    }
}

pub fn get(pm: &mut Pm, id: u64, face: Face) -> V<io::Result<Option<Vec<u8>>>> {
    match face {
        Face::Sync => guard("get_tile_by_id", || pm.get_tile_by_id(id)),
        Face::Async => guard_async("get_tile_by_id_async", pm.get_tile_by_id_async(id)),
    }
}

/// Async lookup that the simulator cancels (drops the future) at the first `Pending` seen once
/// `handle` reports its armed stall has fired. `None` = cancelled.
pub fn get_cancel(pm: &mut Pm, id: u64, handle: &crate::disk::SimDisk) -> V<Option<io::Result<Option<Vec<u8>>>>> {
    let what = "get_tile_by_id_async (cancelled)";
    match guard(what, || exec::block_on_cancel(pm.get_tile_by_id_async(id), || handle.stalled()))? {
        Ok(v) => Ok(v),
        Err(ExecError::LostWake { polls }) => Err(Violation::new(format!("lost-wakeup:{what}"), format!("{what}: future returned Pending after {polls} polls with no wake-up outstanding"))),
        Err(ExecError::Runaway { polls }) => Err(Violation::new(format!("runaway:{what}"), format!("{what}: not finished after {polls} polls"))),
    }
}

pub fn get_xyz(pm: &mut Pm, x: u64, y: u64, z: u8, face: Face) -> V<io::Result<Option<Vec<u8>>>> {
    match face {
        Face::Sync => guard("get_tile", || pm.get_tile(x, y, z)),
        Face::Async => guard_async("get_tile_async", pm.get_tile_async(x, y, z)),
    }
}

pub fn ids_sorted(pm: &Pm) -> Vec<u64> {
    let mut v: Vec<u64> = pm.tile_ids().into_iter().copied().collect();
    v.sort_unstable();
    v
}
