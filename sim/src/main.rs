#![allow(dead_code)]
//! pmtsim — deterministic simulation with fault injection for the pmtiles2 crate.
//!
//!   pmtsim check <ID> <quick|thorough>     run a property's check, write evidence, exit 0/1/2
//!   pmtsim replay <file>                   re-execute a replay file
//!   pmtsim list                            list claimed properties

mod alloc;
mod case;
mod disk;
mod driver;
mod exec;
mod props;
mod rng;
mod scen;
mod scen_fault;
mod scen_foreign;
mod scen_hist;
mod scen_hostile;
mod scen_life;
mod scen_misc;
mod scen_sparse;
mod scen_spill;
mod scen_stream;
mod scen_write;
mod spec;
mod sut;

use std::path::Path;

use scen::Tier;

#[global_allocator]
static GLOBAL: alloc::CapAlloc = alloc::CapAlloc;

fn env_u64(k: &str) -> Option<u64> {
    std::env::var(k).ok().and_then(|v| v.trim().parse::<u64>().ok())
}

fn main() {
    sut::install_panic_hook();
    let args: Vec<String> = std::env::args().skip(1).collect();
    if let Err(e) = spec::selftest() {
        eprintln!("harness error: {e}");
        std::process::exit(2);
    }
    let code = match args.first().map(String::as_str) {
        Some("check") => {
            let (Some(id), Some(tier)) = (args.get(1), args.get(2)) else {
                eprintln!("usage: pmtsim check <ID> <quick|thorough>");
                std::process::exit(2);
            };
            let tier = match std::env::var("VERIF_TIER").ok().as_deref().unwrap_or(tier.as_str()) {
                "quick" => Tier::Quick,
                "thorough" => Tier::Thorough,
                other => {
                    eprintln!("unknown tier {other}");
                    std::process::exit(2);
                }
            };
            let Some(plan) = props::plan(id, tier) else {
                eprintln!("harness error: no check for property {id}");
                std::process::exit(2);
            };
            let jobs = env_u64("VERIF_JOBS").map_or_else(|| std::thread::available_parallelism().map_or(4, usize::from).min(16), |j| j as usize);
            let opts = driver::CheckOpts {
                tier,
                seed: env_u64("VERIF_SEED").unwrap_or(driver::DEFAULT_SEED),
                jobs,
                max_s: std::env::var("VERIF_MAX_S").ok().and_then(|v| v.parse().ok()).unwrap_or(if tier == Tier::Quick { 900.0 } else { 7200.0 }),
                runs_scale: std::env::var("VERIF_RUNS_SCALE").ok().and_then(|v| v.parse().ok()).unwrap_or(1.0),
                write_evidence: std::env::var("VERIF_NO_EVIDENCE").is_err(),
            };
            eprintln!("pmtsim check {id} seed={} jobs={}", opts.seed, opts.jobs);
            driver::run_check(plan, &opts)
        }
        Some("replay") => {
            let Some(f) = args.get(1) else {
                eprintln!("usage: pmtsim replay <file>");
                std::process::exit(2);
            };
            driver::replay(Path::new(f), &props::find)
        }
        Some("exec-case") => {
            let (Some(p), Some(sc), Some(f)) = (args.get(1), args.get(2), args.get(3)) else {
                std::process::exit(2);
            };
            driver::exec_case_main(p, sc, Path::new(f), args.get(4).is_some(), &props::find)
        }
        Some("worker") => {
            let a = |i: usize| args.get(i).cloned().unwrap_or_default();
            let tier = if a(3) == "thorough" { Tier::Thorough } else { Tier::Quick };
            driver::worker_main(&a(1), &a(2), tier, a(4).parse().unwrap_or(0), a(5).parse().unwrap_or(0), a(6).parse().unwrap_or(0), &props::find)
        }
        Some("hostile-dump") => scen_hostile::dump_main(args.get(1).map_or("", String::as_str)),
        Some("canon-digest") => scen_write::canon_digest_main(args.get(1).map_or("", String::as_str)),
        Some("list") => {
            for p in props::ALL {
                if props::plan(p, Tier::Quick).is_some() {
                    println!("{p}");
                }
            }
            0
        }
        _ => {
            eprintln!("usage: pmtsim check <ID> <quick|thorough> | replay <file> | list");
            2
        }
    };
    std::process::exit(code);
}
