//! C15: fail-stop fault enumeration. For each scenario (call × archive × codec × face × transfer
//! policy) the fault-free run issues N stream operations; the call is re-executed with operation
//! k and every later one failing, for every k < N (all k when N is small, otherwise a stated
//! subset) and every error kind.

use serde::{Deserialize, Serialize};
use serde_json::Value;

use crate::case::{draw_archive, draw_size, Face, RangeSpec, SizeClass};
use crate::disk::{FKind, Fault, Pend, Policy, Xfer};
use crate::rng::{hash_str, Rng};
use crate::scen::{from_value, shrink_policy, to_value, Ctx, Scenario, Tier};
use crate::scen_foreign::{draw_foreign, ImageSrc};
use crate::scen_life::draw_ic;
use crate::scen_stream::{call_tag, draw_entries, perform_p, prepare, valid_header, Call, Out};
use crate::sut::V;
use crate::vio;

#[derive(Clone, Debug, Serialize, Deserialize)]
pub struct FaultCase {
    pub call: Call,
    pub face: Face,
    pub pol: Policy,
    pub kinds: Vec<FKind>,
    /// max fault indices per kind (all k < N when N <= cap)
    pub cap: u32,
    /// explicit fault indices (set by the minimiser); None = enumerate
    pub only: Option<Vec<u64>>,
    pub sub_seed: u64,
}

pub struct FailStop;

fn draw_fault_call(rng: &mut Rng, tier: Tier) -> Call {
    let src = |rng: &mut Rng| {
        let big = rng.chance(if tier == Tier::Quick { 4 } else { 8 });
        if rng.chance(50) {
            ImageSrc::Foreign(draw_foreign(rng, big))
        } else {
            ImageSrc::draw(rng, 0, if big { 100 } else { 0 })
        }
    };
    match rng.below(20) {
        0..=2 => Call::Open { src: src(rng), range: RangeSpec::ALL },
        3 => Call::Open { src: src(rng), range: RangeSpec(crate::case::Bnd::Inc(rng.below(1000)), crate::case::Bnd::Exc(rng.log_range(1, 1 << 40))) },
        4 | 5 => Call::Lookup { src: src(rng), nth: rng.below(1000) as u32 },
        6..=9 => {
            let huge = rng.chance(if tier == Tier::Quick { 3 } else { 6 });
            let size = if huge { SizeClass::Huge } else { draw_size(rng, 0) };
            let ic = draw_ic(rng, huge);
            Call::Write { a: draw_archive(rng, size, ic), scramble: rng.next_u64() }
        }
        10 | 11 => Call::Rewrite { src: src(rng), on_reader: rng.chance(50) },
        12 => Call::HeaderRead { h: valid_header(rng) },
        13 => Call::HeaderWrite { h: valid_header(rng) },
        14 | 15 => {
            let n = *rng.pick(&[0usize, 1, 3, 40, 400]);
            Call::DirRead { entries: draw_entries(rng, n, false), ic: 1 + rng.below(4) as u8 }
        }
        16 | 17 => {
            // (beyond 2^16 entries: not through brotli, whose best-quality encoder is too slow
            // for hundreds of fault points on a directory of that size)
            let n = *rng.pick(&[0usize, 1, 3, 40, 400, 4200, 9000, 65_537]);
            let ic = 1 + rng.below(4) as u8;
            Call::DirWrite { entries: draw_entries(rng, n, false), ic: if n > 60_000 && ic == 3 { 4 } else { ic } }
        }
        18 => Call::ReadDirs { src: ImageSrc::Foreign(draw_foreign(rng, false)), range: RangeSpec::ALL },
        _ => {
            let big = rng.chance(35);
            Call::WriteDirs { n: if big { 3000 + rng.below(3000) as u32 } else { rng.below(200) as u32 }, seed: rng.next_u64(), ic: *rng.pick(&[1u8, 2, 4, 2, 4, 3]), start: *rng.pick(&[None, Some(64), Some(4096)]), pos: *rng.pick(&[0u32, 127]) }
        }
    }
}

fn fault_points(n: u64, cap: u64, seed: u64) -> (Vec<u64>, bool) {
    if n <= cap {
        return ((0..n).collect(), true);
    }
    let mut v: Vec<u64> = Vec::new();
    let head = cap / 2;
    let tail = cap / 4;
    v.extend(0..head);
    v.extend(n - tail..n);
    let mut r = Rng::new(seed);
    let stride = (n / (cap / 8).max(1)).max(1);
    let mut k = head;
    while k < n - tail && (v.len() as u64) < cap - cap / 16 {
        v.push(k);
        k += stride;
    }
    while (v.len() as u64) < cap {
        v.push(r.range(head, n - tail - 1));
    }
    v.sort_unstable();
    v.dedup();
    (v, false)
}

impl Scenario for FailStop {
    fn name(&self) -> &'static str {
        "fail-stop"
    }
    fn rule(&self) -> String {
        "scenarios = call (header/directory read+write, open full/partial, tile lookup, archive write, re-write of an opened archive with the fault on the output or on the backing reader, read_directories, write_directories) × archive (root-only / leaf spill) × 4 codecs × sync/async × transfer policy; per scenario every fault index k < N (all k if N <= cap, else first cap/2, last cap/4, a stride and a seeded sample) × error kinds {Other, BrokenPipe, PermissionDenied, write returns Ok(0)}; each evaluation = one (scenario, k, kind) execution; distinct = distinct (scenario, k, kind); non-trivial = the fault fired (k < N)".into()
    }
    fn generate(&self, rng: &mut Rng, tier: Tier, run: u64) -> Value {
        if run < 32 {
            // a fixed matrix first, so that these do not depend on seed luck: the small writer calls
            // x 4 codecs through the async face, once on a stream where every operation (also
            // seek / flush / close) answers Pending once before it completes, once on a plain one
            let ic = 1 + (run % 4) as u8;
            let n_dir = 3 + rng.below(40) as usize;
            let call = match (run / 4) % 4 {
                0 => Call::DirWrite { entries: draw_entries(rng, n_dir, false), ic },
                1 => Call::HeaderWrite { h: valid_header(rng) },
                2 => Call::Write { a: draw_archive(rng, SizeClass::Tens, ic), scramble: rng.next_u64() },
                _ => Call::WriteDirs { n: 20 + rng.below(100) as u32, seed: rng.next_u64(), ic, start: Some(8), pos: 127 },
            };
            let pend = if run < 16 { Pend { rate: 100, burst: 1, inline: *rng.pick(&[0u8, 100]), ctl: true } } else { Pend::NEVER };
            let pol = Policy { rd: Xfer::Full, wr: Xfer::Full, pend, seed: rng.next_u64() };
            return to_value(&FaultCase { call, face: Face::Async, pol, kinds: vec![FKind::Other], cap: if tier == Tier::Quick { 300 } else { 1500 }, only: None, sub_seed: rng.next_u64() });
        }
        if run < 36 {
            // directory writes of more than 2^20 entries (runs 32-35: brotli, gzip, zstd sync; zstd
            // async), few fault points: the first ones, the last ones and a handful in between
            let ic = [3u8, 2, 4, 4][(run - 32) as usize];
            let face = if run == 35 { Face::Async } else { Face::Sync };
            let call = Call::DirWriteGen { n: (1 << 20) + 1 + rng.below(3000) as u32, seed: rng.next_u64(), ic };
            let cap = if tier == Tier::Quick { if ic == 3 { 8 } else { 24 } } else { 64 };
            let pol = if ic == 3 { Policy::plain() } else { Policy { rd: Xfer::Full, wr: Xfer::Fixed(1 << 16), pend: Pend::NEVER, seed: rng.next_u64() } };
            return to_value(&FaultCase { call, face, pol, kinds: vec![FKind::Other], cap, only: None, sub_seed: rng.next_u64() });
        }
        let call = draw_fault_call(rng, tier);
        let face = Face::draw(rng);
        let pol = match rng.below(10) {
            0..=3 => Policy::plain(),
            4 => Policy { rd: Xfer::Fixed(7), wr: Xfer::Fixed(7), pend: Pend::NEVER, seed: rng.next_u64() },
            5 => Policy { rd: Xfer::Random(64), wr: Xfer::Random(64), pend: Pend::NEVER, seed: rng.next_u64() },
            // async: every operation (also seek / flush / close) answers Pending once first
            6 if face == Face::Async => Policy { rd: Xfer::Full, wr: Xfer::Full, pend: Pend { rate: 100, burst: 1, inline: *rng.pick(&[0u8, 100]), ctl: true }, seed: rng.next_u64() },
            _ => {
                let mut p = Policy::draw(rng, face == Face::Async);
                // one-byte transfers make N explode without adding fault sites
                if p.rd == Xfer::One {
                    p.rd = Xfer::Fixed(3);
                }
                if p.wr == Xfer::One {
                    p.wr = Xfer::Fixed(3);
                }
                p
            }
        };
        let kinds = match rng.below(4) {
            0 => vec![FKind::Other, FKind::BrokenPipe, FKind::PermissionDenied, FKind::ZeroWrite],
            1 => vec![FKind::Other, FKind::ZeroWrite],
            2 => vec![FKind::BrokenPipe],
            _ => vec![FKind::Other],
        };
        to_value(&FaultCase { call, face, pol, kinds, cap: if tier == Tier::Quick { 300 } else { 1500 }, only: None, sub_seed: rng.next_u64() })
    }
    fn execute(&self, case: &Value, ctx: &mut Ctx) -> V<()> {
        let c: FaultCase = from_value(case);
        let prep = prepare(&c.call, ctx, "C15")?;
        let mut ref_ctx = Ctx::default();
        let (reference, n) = perform_p(&c.call, &prep, c.face, &c.pol, Fault::None, &mut ref_ctx)?;
        let ref_abandoned = ref_ctx.counters.get("abandoned_pending_ops").copied().unwrap_or(0) > 0;
        if matches!(reference, Out::Failed(_)) {
            // the fault-free call itself refuses (e.g. Unknown compression): nothing to enumerate
            ctx.bump("skipped_fault_free_call_fails", 1);
            ctx.evals += 1;
            return Ok(());
        }
        let tag = call_tag(&c.call);
        ctx.bump(&format!("scenarios_{tag}"), 1);
        let (mut points, exhaustive) = match &c.only {
            Some(v) => (v.clone(), false),
            None => fault_points(n, u64::from(c.cap), c.sub_seed),
        };
        if ref_abandoned && c.only.is_none() {
            // the fault-free call left an operation pending for ever: that operation has index n
            points.push(n);
            ctx.bump("probe_fault_free_call_abandons_an_operation", 1);
        }
        if exhaustive {
            ctx.bump("scenarios_swept_exhaustively", 1);
        } else {
            ctx.bump("scenarios_swept_partially", 1);
        }
        ctx.bump("fault_free_ops_total", n);
        let base = hash_str(&serde_json::to_string(&(&c.call, &c.face, &c.pol)).unwrap_or_default());
        for kind in &c.kinds {
            for &k in &points {
                ctx.evals += 1;
                let mut sub = Ctx::default();
                let (out, _) = perform_p(&c.call, &prep, c.face, &c.pol, Fault::FailStop { at: k, kind: *kind }, &mut sub)?;
                let fired = sub.counters.get("fired_injected_errors").copied().unwrap_or(0);
                ctx.bump("fired_injected_errors", fired);
                ctx.bump(&format!("fired_failstop_{kind:?}"), u64::from(fired > 0));
                ctx.bump("sim_stream_ops", sub.counters.get("sim_stream_ops").copied().unwrap_or(0));
                if k <= n {
                    ctx.sig(base ^ k.wrapping_mul(0x9E37_79B9_7F4A_7C15) ^ (*kind as u64 + 1) << 56);
                }
                match out {
                    Out::Failed(_) => {
                        ctx.bump("outcome_err", 1);
                    }
                    o if fired == 0 && sub.counters.get("abandoned_pending_ops").copied().unwrap_or(0) > 0 && k >= sub.counters.get("sim_stream_ops").copied().unwrap_or(0) && k <= n => {
                        // the failing operation was started (it answered Pending) but never
                        // driven to completion, so its failure could not surface
                        vio!(format!("C15:failing-operation-abandoned:{tag}"), "{:?} {tag}: operation {k} of {n} (and all later ones) would fail with {kind:?}; the call polled it once, got Pending, never completed it and returned success ({})", c.face, brief(&o));
                    }
                    o => {
                        let agree = match (&o, &reference) {
                            (Out::Text(a), Out::Text(b)) if matches!(c.call, Call::Lookup { .. }) => crate::scen_stream::lines_agree(a, b),
                            _ => o == reference,
                        };
                        if !agree {
                            vio!(format!("C15:ok-but-incomplete:{tag}"), "{:?} {tag}: operation {k} of {n} and all later ones fail with {kind:?}, yet the call returns success; result {} differs from the fault-free result {}", c.face, brief(&o), brief(&reference));
                        }
                        ctx.bump("outcome_ok_and_complete", 1);
                    }
                }
            }
        }
        // exploratory, never part of the verdict: writes fail but seeks keep working
        if matches!(c.call, Call::Write { .. } | Call::DirWrite { .. }) && c.only.is_none() && !matches!(c.call, Call::DirWriteGen { .. }) {
            for k in [n / 3, n / 2, n.saturating_sub(2)] {
                let mut sub = Ctx::default();
                if let Ok((o, _)) = perform_p(&c.call, &prep, c.face, &c.pol, Fault::WritesFail { at: k }, &mut sub) {
                    if !matches!(o, Out::Failed(_)) && o != reference && sub.counters.get("fired_injected_errors").copied().unwrap_or(0) > 0 {
                        ctx.bump("extra_writesfail_ok_but_incomplete", 1);
                        let note = format!("exploratory (outside the fail-stop quantifier): with only write/flush/close failing from some operation on (seeks still work), {tag} can return Ok although output is incomplete");
                        if !ctx.notes.contains(&note) {
                            ctx.notes.push(note);
                        }
                    }
                }
            }
        }
        Ok(())
    }
    fn shrink(&self, case: &Value) -> Vec<Value> {
        let c: FaultCase = from_value(case);
        let mut out = Vec::new();
        // first pin the failing fault index: try each single (kind, k) — bounded
        if c.only.is_none() || c.only.as_ref().is_some_and(|v| v.len() > 1) || c.kinds.len() > 1 {
            let mut ctx = Ctx::default();
            if let Ok(prep) = prepare(&c.call, &mut ctx, "C15") {
                if let Ok((_, n)) = perform_p(&c.call, &prep, c.face, &c.pol, Fault::None, &mut ctx) {
                    let pts = c.only.clone().unwrap_or_else(|| fault_points(n, u64::from(c.cap), c.sub_seed).0);
                    // find one failing (kind, k) by direct execution instead of proposing
                    // hundreds of (large) candidate cases
                    if let Ok((reference, _)) = perform_p(&c.call, &prep, c.face, &c.pol, Fault::None, &mut Ctx::default()) {
                        'search: for kind in &c.kinds {
                            for k in &pts {
                                let mut sub = Ctx::default();
                                let bad = match perform_p(&c.call, &prep, c.face, &c.pol, Fault::FailStop { at: *k, kind: *kind }, &mut sub) {
                                    Ok((Out::Failed(_), _)) => false,
                                    Ok((Out::Text(a), _)) if matches!(c.call, Call::Lookup { .. }) => match &reference {
                                        Out::Text(b) => !crate::scen_stream::lines_agree(&a, b),
                                        _ => true,
                                    },
                                    Ok((o, _)) => o != reference || sub.counters.get("abandoned_pending_ops").copied().unwrap_or(0) > 0,
                                    Err(_) => true,
                                };
                                if bad {
                                    out.push(to_value(&FaultCase { kinds: vec![*kind], only: Some(vec![*k]), ..c.clone() }));
                                    break 'search;
                                }
                            }
                        }
                    }
                }
            }
            return out;
        }
        for call in crate::scen_stream::shrink_call_pub(&c.call) {
            // fault index may shift when the call shrinks: re-enumerate
            out.push(to_value(&FaultCase { call, only: None, ..c.clone() }));
        }
        for p in shrink_policy(&c.pol) {
            out.push(to_value(&FaultCase { pol: p, only: None, ..c.clone() }));
        }
        if c.face == Face::Async {
            out.push(to_value(&FaultCase { face: Face::Sync, only: None, ..c.clone() }));
        }
        out
    }
}

fn brief(o: &Out) -> String {
    match o {
        Out::Obs(o) => format!("archive with {} ids", o.ids.len()),
        Out::Bytes(a, b) => format!("{} stream bytes + {} returned bytes", a.len(), b.len()),
        Out::Text(t) => crate::scen_life::clip(t),
        Out::Failed(e) => format!("error {e}"),
    }
}
