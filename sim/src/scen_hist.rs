//! Edit histories with save+restart+reopen as one more operation, checked op by op against the
//! reference map model. Serves C04 (map semantics), C10 (in-memory retention via hook H1 and
//! dedup across memory/reader-backed tiles on every saved image), C19 (empty add rejected and
//! nothing changes).

use std::collections::{BTreeMap, BTreeSet, HashSet};

use serde::{Deserialize, Serialize};
use serde_json::Value;

use crate::case::{draw_alpha, draw_id, Cont, ContPool, Face, IdAlpha, Sched};
use crate::disk::SimDisk;
use crate::rng::Rng;
use crate::scen::{case_sig, from_value, shrink_policy, to_value, Ctx, Scenario, Tier};
use crate::scen_foreign::ImageSrc;
use crate::spec;
use crate::sut::{self, Pm, Violation, V};
use crate::{ensure, vio};

#[derive(Clone, Debug, Serialize, Deserialize, PartialEq)]
pub enum Op {
    Add { id: u64, c: Cont },
    Remove { id: u64 },
    Lookup { id: u64 },
    LookupXyz { id: u64 },
    List,
    Count,
    SaveReopen { w: Face, r: Face, ic: u8 },
    AddEmpty { id: u64 },
    /// lookups of reader-backed tiles disturbed by a transient stream failure or a cancelled
    /// request, followed by undisturbed lookups (see `scen_foreign::disturbed_lookups`)
    Disturb { seed: u64 },
}

#[derive(Clone, Debug, Serialize, Deserialize)]
pub struct HistCase {
    /// None = start from an empty archive
    pub init: Option<ImageSrc>,
    pub ops: Vec<Op>,
    pub sched: Sched,
    pub face: Face,
    /// full cross-check after every n-th mutating op (0 = only at the end)
    pub check_every: u32,
    pub scramble: u64,
}

pub struct History {
    pub prop: &'static str,
}

struct State {
    pm: Pm,
    model: BTreeMap<u64, Vec<u8>>,
    /// ids whose content is held in memory (added since the last reopen)
    mem: BTreeSet<u64>,
    /// ids that were present at some point and have been removed (probes)
    removed: BTreeSet<u64>,
    ic: u8,
    /// the stream and image behind the reader-backed tiles, and (computed on demand) where the
    /// independent reader finds each tile in it
    backing: Option<(SimDisk, Vec<u8>)>,
    addr: Option<(u64, BTreeMap<u64, (u64, u32)>)>,
}

impl Scenario for History {
    fn name(&self) -> &'static str {
        "history"
    }
    fn rule(&self) -> String {
        "seeded edit histories over {add, replace, remove, lookup, lookup-by-xyz, list, count, save+restart+reopen (sync|async, 4 codecs)} (+ rejected empty add for C19), bulk short over ids 0..5 with colliding contents, tail long over large alphabets; initial state empty, library-written or foreign archive; distinct = distinct operation sequences; non-trivial = at least one mutating op".into()
    }
    fn generate(&self, rng: &mut Rng, tier: Tier, _run: u64) -> Value {
        let long = rng.chance(if tier == Tier::Quick { 4 } else { 6 });
        let n_ops = if long { 40 + rng.below(if tier == Tier::Quick { 300 } else { 1500 }) } else { 1 + rng.below(12) };
        let alpha = if long { draw_alpha(rng) } else { IdAlpha::Small };
        let pool = if long && rng.chance(50) { ContPool::Mixed } else if rng.chance(70) { ContPool::Colliding } else { ContPool::Tagged };
        let init = if rng.below(6000) == 0 {
            let ic = *rng.pick(&[2u8, 4]);
            Some(ImageSrc::Written { a: crate::case::draw_archive(rng, crate::case::SizeClass::ManyRegular, ic), face: Face::Sync, w: crate::disk::Policy::plain(), scramble: 1 })
        } else if rng.chance(35) {
            Some(ImageSrc::draw(rng, 50, 0))
        } else {
            None
        };
        let face = Face::draw(rng);
        let with_empty = self.prop == "C19";
        let mut ops = Vec::new();
        let mut known: Vec<u64> = Vec::new();
        let mut opc: u32 = 0;
        for _ in 0..n_ops {
            opc += 1;
            let pick_id = |rng: &mut Rng, known: &Vec<u64>| if !known.is_empty() && rng.chance(60) { known[rng.usize_below(known.len())] } else { draw_id(rng, alpha) };
            let op = match rng.below(if with_empty { 115 } else { 100 }) {
                0..=39 => {
                    let id = pick_id(rng, &known);
                    known.push(id);
                    let mut c = Cont::draw(rng, pool);
                    if pool == ContPool::Tagged {
                        // unique value per write so each read is attributable to one write
                        c.seed = opc;
                    }
                    if long {
                        c.len = c.len.min(3000);
                    }
                    if rng.chance(3) {
                        // contents above 64 KiB (two of them, sharing length and prefix)
                        c = Cont { k: 2, seed: rng.below(2) as u32, len: 65_537 + 4000 * (rng.below(2) as u32) };
                    }
                    Op::Add { id, c }
                }
                40..=54 => Op::Remove { id: pick_id(rng, &known) },
                55..=71 => Op::Lookup { id: pick_id(rng, &known) },
                72..=74 => Op::Disturb { seed: rng.next_u64() },
                75..=79 => Op::LookupXyz { id: pick_id(rng, &known) },
                80..=84 => Op::List,
                85..=89 => Op::Count,
                90..=99 => Op::SaveReopen { w: Face::draw(rng), r: Face::draw(rng), ic: if long && rng.chance(70) { *rng.pick(&[1u8, 2, 4]) } else { 1 + rng.below(4) as u8 } },
                _ => Op::AddEmpty { id: pick_id(rng, &known) },
            };
            ops.push(op);
        }
        if with_empty && !ops.iter().any(|o| matches!(o, Op::AddEmpty { .. })) {
            let at = rng.usize_below(ops.len() + 1);
            ops.insert(at, Op::AddEmpty { id: draw_id(rng, alpha) });
        }
        let sched = if rng.chance(80) { Sched::draw(rng, Face::Async, Face::Async) } else { Sched::plain() };
        to_value(&HistCase { init, ops, sched, face, check_every: *rng.pick(&[0u32, 1, 1, 3, 7]), scramble: rng.next_u64() })
    }

    fn execute(&self, case: &Value, ctx: &mut Ctx) -> V<()> {
        let c: HistCase = from_value(case);
        ctx.evals += 1;
        if c.ops.iter().any(|o| matches!(o, Op::Add { .. } | Op::Remove { .. } | Op::SaveReopen { .. } | Op::AddEmpty { .. })) {
            ctx.sig(case_sig(&to_value(&(&c.init.is_some(), &c.ops))));
        }
        let final_bytes = run_history(self.prop, &c, true, ctx)?;
        if self.prop == "C19" {
            // twin history without the rejected operations must produce the same bytes
            let twin = HistCase { ops: c.ops.iter().filter(|o| !matches!(o, Op::AddEmpty { .. })).cloned().collect(), ..c.clone() };
            let mut quiet = Ctx::default();
            let twin_bytes = run_history("C19-twin", &twin, false, &mut quiet)?;
            ensure!(final_bytes == twin_bytes, "C19:empty-add-altered-output", "the archive saved after a history containing rejected empty adds differs from the one saved by the same history without them ({} vs {} bytes)", final_bytes.len(), twin_bytes.len());
        }
        Ok(())
    }

    fn shrink(&self, case: &Value) -> Vec<Value> {
        let c: HistCase = from_value(case);
        let mut out = Vec::new();
        let n = c.ops.len();
        if n > 1 {
            out.push(to_value(&HistCase { ops: c.ops[..n / 2].to_vec(), ..c.clone() }));
            out.push(to_value(&HistCase { ops: c.ops[n / 2..].to_vec(), ..c.clone() }));
            if n > 8 {
                for k in 0..8 {
                    let lo = k * n / 8;
                    let hi = (k + 1) * n / 8;
                    let mut v = c.ops[..lo].to_vec();
                    v.extend_from_slice(&c.ops[hi..]);
                    out.push(to_value(&HistCase { ops: v, ..c.clone() }));
                }
            }
        }
        if n <= 40 {
            for i in 0..n {
                let mut v = c.ops.clone();
                v.remove(i);
                out.push(to_value(&HistCase { ops: v, ..c.clone() }));
            }
            for i in 0..n {
                let mut v = c.ops.clone();
                let changed = match &mut v[i] {
                    Op::Add { c: cc, .. } if cc.len > 1 => {
                        cc.len = 1;
                        true
                    }
                    Op::SaveReopen { w, r, ic } if *w == Face::Async || *r == Face::Async || *ic != 1 => {
                        *w = Face::Sync;
                        *r = Face::Sync;
                        *ic = 1;
                        true
                    }
                    _ => false,
                };
                if changed {
                    out.push(to_value(&HistCase { ops: v, ..c.clone() }));
                }
            }
        }
        if c.init.is_some() {
            out.push(to_value(&HistCase { init: None, ..c.clone() }));
            for s in c.init.as_ref().unwrap().shrink() {
                out.push(to_value(&HistCase { init: Some(s), ..c.clone() }));
            }
        }
        for w in shrink_policy(&c.sched.w) {
            out.push(to_value(&HistCase { sched: Sched { w, r: c.sched.r.clone() }, ..c.clone() }));
        }
        for r in shrink_policy(&c.sched.r) {
            out.push(to_value(&HistCase { sched: Sched { w: c.sched.w.clone(), r }, ..c.clone() }));
        }
        if c.face == Face::Async {
            out.push(to_value(&HistCase { face: Face::Sync, ..c.clone() }));
        }
        if c.check_every != 1 {
            out.push(to_value(&HistCase { check_every: 1, ..c.clone() }));
        }
        out
    }
}

/// Executes the history; returns the bytes of a final save (sync, fixed settings).
fn run_history(prop: &str, c: &HistCase, enforce: bool, ctx: &mut Ctx) -> V<Vec<u8>> {
    let p = prop;
    let mut st = match &c.init {
        None => State { pm: pmtiles2::PMTiles::default(), model: BTreeMap::new(), mem: BTreeSet::new(), removed: BTreeSet::new(), ic: 2, backing: None, addr: None },
        Some(src) => {
            let img = src.materialise(ctx, p)?;
            let disk = SimDisk::new(img.image.clone(), &c.sched.r);
            let backing = Some((disk.clone(), img.image.clone()));
            let pm = match sut::open(disk, c.face)? {
                Ok(pm) => pm,
                Err(e) => vio!(format!("{p}:initial-open-failed"), "valid initial archive does not open: {e}"),
            };
            ctx.bump(if src.is_foreign() { "init_foreign" } else { "init_written" }, 1);
            State { pm, model: img.expected, mem: BTreeSet::new(), removed: BTreeSet::new(), ic: img.header.ic, backing, addr: None }
        }
    };
    let check_model = enforce && (p == "C04" || p == "C19");
    let check_store = enforce && p == "C10";
    // C01: what was written is what an open of the written bytes yields (judged right after
    // every save+reopen and on the final image; lookups in between are part of the history only)
    let check_roundtrip = enforce && p == "C01";
    let mut mutations = 0u32;
    let mut save_no = 0u64;
    for (i, op) in c.ops.iter().enumerate() {
        ctx.trace(|| format!("op {i}: {op:?}"));
        ctx.bump("history_ops", 1);
        match op {
            Op::Add { id, c: cont } => {
                let bytes = cont.bytes();
                let r = sut::guard("add_tile", || st.pm.add_tile(*id, bytes.clone()))?;
                ensure!(r.is_ok(), format!("{p}:add-failed"), "op {i}: add_tile({id}, {} bytes) failed: {:?}", bytes.len(), r.err());
                st.model.insert(*id, bytes);
                st.mem.insert(*id);
                st.removed.remove(id);
                mutations += 1;
            }
            Op::Remove { id } => {
                sut::guard("remove_tile", || st.pm.remove_tile(*id))?;
                if st.model.remove(id).is_some() {
                    st.removed.insert(*id);
                }
                st.mem.remove(id);
                mutations += 1;
            }
            Op::Lookup { id } => {
                if check_model {
                    check_lookup(p, &mut st, *id, c.face, i)?;
                } else {
                    // the lookup is part of the history whatever the oracle is
                    let _ = sut::get(&mut st.pm, *id, c.face)?;
                }
            }
            Op::LookupXyz { id } => {
                if check_model {
                    if let Some((z, x, y)) = spec::id_to_zxy(*id) {
                        let got = sut::get_xyz(&mut st.pm, x, y, z, c.face)?;
                        let _ = &got;
                        let want = st.model.get(id);
                        ensure!(matches!(&got, Ok(g) if g.as_ref() == want), format!("{p}:lookup-xyz"), "op {i}: get_tile({x},{y},{z}) (id {id}) returned {:?}, model has {:?}", got.map(|o| o.map(|b| b.len())), want.map(Vec::len));
                    }
                }
            }
            Op::List => {
                if check_model {
                    let ids = sut::ids_sorted(&st.pm);
                    let want: Vec<u64> = st.model.keys().copied().collect();
                    ensure!(ids == want, format!("{p}:listing"), "op {i}: tile_ids() has {} ids, model has {} (first difference near {:?})", ids.len(), want.len(), ids.iter().zip(&want).find(|(a, b)| a != b));
                    let uniq: HashSet<u64> = st.pm.tile_ids().into_iter().copied().collect();
                    ensure!(uniq.len() == st.pm.tile_ids().len(), format!("{p}:listing"), "op {i}: tile_ids() lists an id twice");
                }
            }
            Op::Count => {
                if check_model {
                    ensure!(st.pm.num_tiles() == st.model.len(), format!("{p}:count"), "op {i}: num_tiles() = {}, model has {}", st.pm.num_tiles(), st.model.len());
                }
            }
            Op::Disturb { seed } => {
                if let Some((handle, image)) = st.backing.clone() {
                    if st.addr.is_none() {
                        let h = spec::parse_header(&image).map_err(|e| Violation::new("harness:backing-image", e))?;
                        let w = spec::walk(&image, &h, spec::Limits::VALID).map_err(|e| Violation::new("harness:backing-image", format!("{e:?}")))?;
                        st.addr = Some((h.data_offset, w.tiles));
                    }
                    let (data_offset, addr) = st.addr.clone().expect("set above");
                    let ids: Vec<u64> = st.model.keys().copied().filter(|id| !st.mem.contains(id) && addr.contains_key(id)).collect();
                    let mut rng = Rng::new(*seed);
                    // the disturbed lookups are part of the history whatever the oracle is; what they
                    // return is judged only where the map semantics are the oracle
                    match crate::scen_foreign::disturbed_lookups("MAP", &mut st.pm, &handle, data_offset, &addr, &st.model, &ids, c.face, &mut rng, 2, false, ctx) {
                        Ok(()) => {}
                        Err(v) if v.class.starts_with("MAP:") => {
                            if check_model {
                                return Err(Violation::new(v.class.replacen("MAP", p, 1), format!("op {i}: {}", v.detail)));
                            }
                        }
                        Err(v) => return Err(v),
                    }
                    if !ids.is_empty() {
                        ctx.bump("disturbed_lookup_ops", 1);
                    }
                }
            }
            Op::AddEmpty { id } => {
                let before = st.pm.verif_store_stats();
                let r = sut::guard("add_tile(empty)", || st.pm.add_tile(*id, Vec::<u8>::new()))?;
                if enforce {
                    ensure!(r.is_err(), "C19:empty-add-accepted", "op {i}: add_tile({id}, empty) returned Ok");
                    let after = st.pm.verif_store_stats();
                    ensure!(before == after, "C19:empty-add-changed-store", "op {i}: rejected add_tile({id}, empty) changed the store: {:?} -> {:?}", before, after);
                    full_check("C19", &mut st, c.face, i, ctx)?;
                }
                ctx.bump("rejected_empty_adds", 1);
            }
            Op::SaveReopen { w, r, ic } => {
                st.ic = *ic;
                st.pm.internal_compression = sut::comp(*ic);
                let pm = std::mem::take(&mut st.pm);
                save_no += 1;
                pmtiles2::verif::set_scramble_seed(Some(c.scramble ^ save_no));
                let mut out = SimDisk::new(Vec::new(), &c.sched.w);
                let res = sut::save(pm, &mut out, *w);
                pmtiles2::verif::set_scramble_seed(None);
                ctx.absorb(&out);
                match res? {
                    Ok(()) => {}
                    Err(e) => vio!(format!("{p}:save-failed"), "op {i}: saving on a fault-free stream failed: {e}"),
                }
                let image = out.image();
                if check_store {
                    crate::scen_hist::check_image_dedup(&st.model, &image, ctx).map_err(|v| Violation::new(v.class, format!("op {i}: {}", v.detail)))?;
                }
                if enforce && p == "C02" {
                    check_image_valid(&st.model, &image, ctx).map_err(|v| Violation::new(v.class, format!("op {i}: {}", v.detail)))?;
                }
                // restart: only the image survives
                st.backing = Some((SimDisk::new(Vec::new(), &c.sched.r), image.clone()));
                st.addr = None;
                let disk = SimDisk::new(image, &c.sched.r);
                let h2 = disk.clone();
                st.backing.as_mut().expect("set above").0 = disk.clone();
                st.pm = match sut::open(disk, *r)? {
                    Ok(pm) => pm,
                    Err(e) => vio!(format!("{p}:reopen-failed"), "op {i}: the archive just saved does not open: {e}"),
                };
                ctx.absorb(&h2);
                st.mem.clear();
                if check_roundtrip {
                    full_check(p, &mut st, *r, i, ctx)?;
                }
                ctx.bump("save_reopen_ops", 1);
                mutations += 1;
            }
        }
        let mutating = matches!(op, Op::Add { .. } | Op::Remove { .. } | Op::SaveReopen { .. });
        if mutating && enforce && ctx.states.len() < 256 {
            let mut h = 0xcbf2_9ce4_8422_2325u64;
            for (id, b) in &st.model {
                h = (h ^ id.wrapping_mul(0x9E37_79B9_7F4A_7C15)).rotate_left(17) ^ crate::rng::hash_bytes(b.len() as u64, &b[..b.len().min(64)]);
            }
            ctx.states.push(h ^ (st.mem.len() as u64) << 48);
        }
        if mutating && check_store {
            check_store_stats(&st, i)?;
        }
        if mutating && check_model && c.check_every > 0 && mutations % c.check_every == 0 {
            full_check(p, &mut st, c.face, i, ctx)?;
        }
    }
    if check_model {
        full_check(p, &mut st, c.face, c.ops.len(), ctx)?;
    }
    if check_store {
        check_store_stats(&st, c.ops.len())?;
    }
    ctx.bump("distinct_model_states_final", 1);
    // final save with fixed parameters (used by the C19 twin comparison and C10 image check)
    st.pm.internal_compression = sut::comp(1);
    let pm = std::mem::take(&mut st.pm);
    let mut out = SimDisk::new(Vec::new(), &crate::disk::Policy::plain());
    pmtiles2::verif::set_scramble_seed(Some(c.scramble));
    let res = sut::save(pm, &mut out, Face::Sync);
    pmtiles2::verif::set_scramble_seed(None);
    match res? {
        Ok(()) => {}
        Err(e) => vio!(format!("{p}:save-failed"), "final save failed: {e}"),
    }
    let image = out.image();
    if check_store {
        check_image_dedup(&st.model, &image, ctx)?;
    }
    if enforce && p == "C02" {
        check_image_valid(&st.model, &image, ctx)?;
    }
    if check_roundtrip {
        st.pm = match sut::open(SimDisk::new(image.clone(), &c.sched.r), c.face)? {
            Ok(pm) => pm,
            Err(e) => vio!(format!("{p}:reopen-failed"), "the archive saved at the end of the history does not open: {e}"),
        };
        full_check(p, &mut st, c.face, c.ops.len(), ctx)?;
    }
    Ok(image)
}

/// C02 on an image saved in the middle of an edit history: independent validator + lookups.
fn check_image_valid(model: &BTreeMap<u64, Vec<u8>>, image: &[u8], ctx: &mut Ctx) -> V<()> {
    let v = match spec::validate(image) {
        Ok(v) => v,
        Err(e) => vio!(format!("C02:invalid:{}", crate::scen_life::class_of(&e)), "independent validator rejects an archive saved during an edit history: {e}"),
    };
    ensure!(v.walk.tiles.len() == model.len() && v.walk.tiles.keys().eq(model.keys()), "C02:addressed-set", "directories address {} ids, the archive holds {}", v.walk.tiles.len(), model.len());
    for (id, bytes) in model.iter().step_by((model.len() / 200).max(1)) {
        match spec::lookup(image, &v.header, *id) {
            Ok(Some((off, len))) => ensure!(spec::tile_bytes(image, &v.header, off, len).ok() == Some(&bytes[..]), "C02:lookup-bytes", "specification lookup of tile {id} returns different bytes"),
            other => vio!("C02:lookup-missing", "specification lookup of tile {id}: {other:?}"),
        }
    }
    ctx.bump("validated_images", 1);
    Ok(())
}

fn check_lookup(p: &str, st: &mut State, id: u64, face: Face, i: usize) -> V<()> {
    let got = sut::get(&mut st.pm, id, face)?;
    let want = st.model.get(&id);
    match (&got, want) {
        (Ok(Some(g)), Some(w)) if g == w => Ok(()),
        (Ok(None), None) => Ok(()),
        (Ok(Some(g)), Some(w)) => vio!(format!("{p}:stale-or-wrong-content"), "op {i}: tile {id} returns {} bytes (first {:?}), the model holds {} bytes (first {:?})", g.len(), g.first(), w.len(), w.first()),
        (Ok(Some(g)), None) => vio!(format!("{p}:phantom-tile"), "op {i}: tile {id} returns {} bytes but was never added or has been removed", g.len()),
        (Ok(None), Some(w)) => vio!(format!("{p}:lost-tile"), "op {i}: tile {id} is absent, the model holds {} bytes", w.len()),
        (Err(e), _) => vio!(format!("{p}:lookup-error"), "op {i}: lookup of tile {id} failed: {e}"),
    }
}

fn full_check(p: &str, st: &mut State, face: Face, i: usize, ctx: &mut Ctx) -> V<()> {
    let ids = sut::ids_sorted(&st.pm);
    let want: Vec<u64> = st.model.keys().copied().collect();
    ensure!(ids == want, format!("{p}:listing"), "after op {i}: tile_ids() has {} ids, model has {}", ids.len(), want.len());
    ensure!(st.pm.num_tiles() == want.len(), format!("{p}:count"), "after op {i}: num_tiles() = {}, model has {}", st.pm.num_tiles(), want.len());
    let step = (want.len() / 300).max(1);
    for id in want.iter().step_by(step) {
        check_lookup(p, st, *id, face, i)?;
    }
    let removed: Vec<u64> = st.removed.iter().copied().take(40).collect();
    for id in removed {
        check_lookup(p, st, id, face, i)?;
    }
    for id in [0u64, 1, 6, u64::MAX] {
        check_lookup(p, st, id, face, i)?;
    }
    ctx.bump("full_cross_checks", 1);
    Ok(())
}

fn check_store_stats(st: &State, i: usize) -> V<()> {
    let s = st.pm.verif_store_stats();
    let distinct: HashSet<&Vec<u8>> = st.mem.iter().filter_map(|id| st.model.get(id)).collect();
    let bytes: usize = distinct.iter().map(|v| v.len()).sum();
    ensure!(s.stored_contents == distinct.len(), if s.stored_contents > distinct.len() { "C10:retained-unreferenced-or-duplicate" } else { "C10:retained-too-few" }, "after op {i}: the builder retains {} contents; in-memory tiles refer to {} distinct contents", s.stored_contents, distinct.len());
    ensure!(s.retained_bytes == bytes, "C10:retained-bytes", "after op {i}: the builder retains {} bytes; distinct referenced contents sum to {}", s.retained_bytes, bytes);
    Ok(())
}

/// Archive-level dedup / run-length invariants (same as the lifecycle C10 oracle).
pub fn check_image_dedup(model: &BTreeMap<u64, Vec<u8>>, image: &[u8], ctx: &mut Ctx) -> V<()> {
    let h = spec::parse_header(image).map_err(|e| Violation::new("C10:unparseable", e))?;
    let w = spec::walk(image, &h, spec::Limits::VALID).map_err(|e| Violation::new("C10:unparseable", format!("{e:?}")))?;
    let distinct: HashSet<&Vec<u8>> = model.values().collect();
    let distinct_bytes: u64 = distinct.iter().map(|v| v.len() as u64).sum();
    ensure!(h.data_length == distinct_bytes, "C10:data-length", "tile-data section is {} bytes; the distinct contents sum to {}", h.data_length, distinct_bytes);
    let mut by_content: std::collections::HashMap<&Vec<u8>, (u64, u32)> = std::collections::HashMap::new();
    for (id, bytes) in model {
        let Some(&(off, len)) = w.tiles.get(id) else {
            vio!("C10:missing", "tile {id} not addressed by the written directories");
        };
        match by_content.get(bytes) {
            Some(&(o2, l2)) => ensure!((o2, l2) == (off, len), "C10:second-copy", "tile {id} has the same content as another tile but is stored at {off}+{len} instead of {o2}+{l2}"),
            None => {
                by_content.insert(bytes, (off, len));
            }
        }
    }
    for p in w.tile_entries.windows(2) {
        let (a, b) = (p[0], p[1]);
        if a.tile_id + u64::from(a.run_length) == b.tile_id && a.offset == b.offset && a.length == b.length {
            vio!("C10:mergeable", "entries for tiles {} (run {}) and {} share content and are adjacent but were not merged", a.tile_id, a.run_length, b.tile_id);
        }
    }
    ctx.bump("images_checked", 1);
    Ok(())
}

// ---------------------------------------------------------------------------------------------
// bounded exhaustive batch: every history of length <= 5 over a tiny alphabet

pub struct HistoryEnum {
    pub prop: &'static str,
}

const ENUM_LEN: u32 = 5;

fn enum_alphabet() -> Vec<Op> {
    let a = Cont { k: 2, seed: 0, len: 2 };
    let b = Cont { k: 2, seed: 1, len: 2 };
    vec![
        Op::Add { id: 0, c: a },
        Op::Add { id: 0, c: b },
        Op::Add { id: 1, c: a },
        Op::Add { id: 1, c: b },
        Op::Remove { id: 0 },
        Op::Remove { id: 1 },
        Op::SaveReopen { w: Face::Sync, r: Face::Sync, ic: 1 },
    ]
}

impl Scenario for HistoryEnum {
    fn name(&self) -> &'static str {
        "history-enum"
    }
    fn rule(&self) -> String {
        format!("every history of length 1..={ENUM_LEN} over the alphabet {{add(0|1, A|B), remove(0|1), save+restart+reopen}} (A, B share length and prefix), with a full model cross-check after every operation; enumerated; distinct = distinct histories; all non-trivial")
    }
    fn enumerated(&self, _tier: Tier) -> Option<u64> {
        let k = enum_alphabet().len() as u64;
        Some((1..=ENUM_LEN).map(|l| k.pow(l)).sum())
    }
    fn generate(&self, _rng: &mut Rng, _tier: Tier, run: u64) -> Value {
        let alpha = enum_alphabet();
        let k = alpha.len() as u64;
        let mut r = run;
        let mut len = 1u32;
        while r >= k.pow(len) {
            r -= k.pow(len);
            len += 1;
        }
        let mut ops = Vec::new();
        for _ in 0..len {
            ops.push(alpha[(r % k) as usize].clone());
            r /= k;
        }
        to_value(&HistCase { init: None, ops, sched: Sched::plain(), face: Face::Sync, check_every: 1, scramble: run })
    }
    fn execute(&self, case: &Value, ctx: &mut Ctx) -> V<()> {
        History { prop: self.prop }.execute(case, ctx)
    }
    fn shrink(&self, case: &Value) -> Vec<Value> {
        History { prop: self.prop }.shrink(case)
    }
}
