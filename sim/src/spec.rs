//! Independent PMTiles v3 implementation written from the specification text. Shares no code
//! with the crate under test (only the codec *libraries* flate2 / brotli / zstd, called directly,
//! are a common trusted base). Used as oracle: reader, validator, lookup procedure, foreign writer.

use std::collections::{BTreeMap, HashSet};
use std::io::{Read, Write};

use serde::{Deserialize, Serialize};

pub const HEADER_LEN: usize = 127;
pub const ROOT_BUDGET_END: u64 = 16_384;

#[derive(Clone, Debug, PartialEq, Eq, Serialize, Deserialize, Default)]
pub struct SpecHeader {
    pub root_offset: u64,
    pub root_length: u64,
    pub meta_offset: u64,
    pub meta_length: u64,
    pub leaf_offset: u64,
    pub leaf_length: u64,
    pub data_offset: u64,
    pub data_length: u64,
    pub n_addressed: u64,
    pub n_entries: u64,
    pub n_contents: u64,
    pub clustered: u8,
    pub ic: u8,
    pub tc: u8,
    pub tt: u8,
    pub min_zoom: u8,
    pub max_zoom: u8,
    pub min_lon: i32,
    pub min_lat: i32,
    pub max_lon: i32,
    pub max_lat: i32,
    pub center_zoom: u8,
    pub center_lon: i32,
    pub center_lat: i32,
}

pub fn encode_header(h: &SpecHeader) -> [u8; HEADER_LEN] {
    let mut b = [0u8; HEADER_LEN];
    b[0..7].copy_from_slice(b"PMTiles");
    b[7] = 3;
    let u = [
        h.root_offset,
        h.root_length,
        h.meta_offset,
        h.meta_length,
        h.leaf_offset,
        h.leaf_length,
        h.data_offset,
        h.data_length,
        h.n_addressed,
        h.n_entries,
        h.n_contents,
    ];
    for (i, v) in u.iter().enumerate() {
        b[8 + 8 * i..16 + 8 * i].copy_from_slice(&v.to_le_bytes());
    }
    b[96] = h.clustered;
    b[97] = h.ic;
    b[98] = h.tc;
    b[99] = h.tt;
    b[100] = h.min_zoom;
    b[101] = h.max_zoom;
    b[102..106].copy_from_slice(&h.min_lon.to_le_bytes());
    b[106..110].copy_from_slice(&h.min_lat.to_le_bytes());
    b[110..114].copy_from_slice(&h.max_lon.to_le_bytes());
    b[114..118].copy_from_slice(&h.max_lat.to_le_bytes());
    b[118] = h.center_zoom;
    b[119..123].copy_from_slice(&h.center_lon.to_le_bytes());
    b[123..127].copy_from_slice(&h.center_lat.to_le_bytes());
    b
}

/// Parses the fixed layout. Checks length, magic and version only; enum codes are returned raw.
pub fn parse_header(b: &[u8]) -> Result<SpecHeader, String> {
    if b.len() < HEADER_LEN {
        return Err(format!("header: only {} bytes", b.len()));
    }
    if &b[0..7] != b"PMTiles" {
        return Err("header: bad magic".into());
    }
    if b[7] != 3 {
        return Err(format!("header: version {}", b[7]));
    }
    let u = |i: usize| u64::from_le_bytes(b[8 + 8 * i..16 + 8 * i].try_into().unwrap());
    let i4 = |o: usize| i32::from_le_bytes(b[o..o + 4].try_into().unwrap());
    Ok(SpecHeader {
        root_offset: u(0),
        root_length: u(1),
        meta_offset: u(2),
        meta_length: u(3),
        leaf_offset: u(4),
        leaf_length: u(5),
        data_offset: u(6),
        data_length: u(7),
        n_addressed: u(8),
        n_entries: u(9),
        n_contents: u(10),
        clustered: b[96],
        ic: b[97],
        tc: b[98],
        tt: b[99],
        min_zoom: b[100],
        max_zoom: b[101],
        min_lon: i4(102),
        min_lat: i4(106),
        max_lon: i4(110),
        max_lat: i4(114),
        center_zoom: b[118],
        center_lon: i4(119),
        center_lat: i4(123),
    })
}

pub fn valid_compression_code(c: u8) -> bool {
    c <= 4
}
/// Tile type codes 0..=5 are the ones this library version documents; 6 (MLT, added to the
/// specification later) is treated as "no opinion" by callers.
pub fn valid_tile_type_code(c: u8) -> bool {
    c <= 5
}

// ---------------------------------------------------------------------------------------------
// varints and directories

pub fn put_varint(out: &mut Vec<u8>, mut v: u64) {
    loop {
        let b = (v & 0x7f) as u8;
        v >>= 7;
        if v == 0 {
            out.push(b);
            return;
        }
        out.push(b | 0x80);
    }
}

pub fn get_varint(b: &[u8], pos: &mut usize) -> Result<u64, String> {
    let mut v: u64 = 0;
    let mut shift = 0u32;
    loop {
        let Some(&byte) = b.get(*pos) else {
            return Err("varint: truncated".into());
        };
        *pos += 1;
        let payload = u64::from(byte & 0x7f);
        if shift == 63 && payload > 1 || shift > 63 {
            return Err("varint: overflow".into());
        }
        v |= payload << shift;
        if byte & 0x80 == 0 {
            return Ok(v);
        }
        shift += 7;
    }
}

#[derive(Clone, Copy, Debug, PartialEq, Eq, Serialize, Deserialize, Hash)]
pub struct SpecEntry {
    pub tile_id: u64,
    pub offset: u64,
    pub length: u32,
    pub run_length: u32,
}

/// Uncompressed v3 directory encoding.
pub fn encode_dir(entries: &[SpecEntry]) -> Vec<u8> {
    let mut out = Vec::with_capacity(entries.len() * 6 + 4);
    put_varint(&mut out, entries.len() as u64);
    let mut last = 0u64;
    for e in entries {
        put_varint(&mut out, e.tile_id.wrapping_sub(last));
        last = e.tile_id;
    }
    for e in entries {
        put_varint(&mut out, u64::from(e.run_length));
    }
    for e in entries {
        put_varint(&mut out, u64::from(e.length));
    }
    for (i, e) in entries.iter().enumerate() {
        if i > 0 && e.offset == entries[i - 1].offset.wrapping_add(u64::from(entries[i - 1].length)) {
            put_varint(&mut out, 0);
        } else {
            put_varint(&mut out, e.offset.wrapping_add(1));
        }
    }
    out
}

/// Raw column form, for crafting hostile directories.
pub fn encode_dir_raw(count: u64, deltas: &[u64], runs: &[u64], lens: &[u64], offs: &[u64]) -> Vec<u8> {
    let mut out = Vec::new();
    put_varint(&mut out, count);
    for c in [deltas, runs, lens, offs] {
        for v in c {
            put_varint(&mut out, *v);
        }
    }
    out
}

pub fn decode_dir(b: &[u8]) -> Result<Vec<SpecEntry>, String> {
    let mut p = 0usize;
    let n = get_varint(b, &mut p)?;
    // each entry needs at least four bytes
    if n > (b.len() as u64) / 4 + 1 {
        return Err(format!("dir: entry count {n} impossible for {} bytes", b.len()));
    }
    let n = n as usize;
    let mut es = vec![SpecEntry { tile_id: 0, offset: 0, length: 0, run_length: 0 }; n];
    let mut last = 0u64;
    for e in es.iter_mut() {
        let d = get_varint(b, &mut p)?;
        last = last.checked_add(d).ok_or("dir: tile id overflow")?;
        e.tile_id = last;
    }
    for e in es.iter_mut() {
        let v = get_varint(b, &mut p)?;
        e.run_length = u32::try_from(v).map_err(|_| "dir: run length > u32")?;
    }
    for e in es.iter_mut() {
        let v = get_varint(b, &mut p)?;
        e.length = u32::try_from(v).map_err(|_| "dir: length > u32")?;
        if e.length == 0 {
            return Err("dir: zero length".into());
        }
    }
    for i in 0..n {
        let v = get_varint(b, &mut p)?;
        es[i].offset = if v == 0 {
            if i == 0 {
                return Err("dir: first offset 0".into());
            }
            es[i - 1].offset.checked_add(u64::from(es[i - 1].length)).ok_or("dir: offset overflow")?
        } else {
            v - 1
        };
    }
    Ok(es)
}

// ---------------------------------------------------------------------------------------------
// codecs (upstream libraries called directly)

pub fn compress(ic: u8, data: &[u8]) -> Result<Vec<u8>, String> {
    compress_with(ic, data, 0)
}

/// `strength` selects encoder parameters another writer might use: 0 = defaults; otherwise gzip
/// level 1 / 9, brotli quality 1 with a small window / quality 5 with a 2^24 window, zstd level 1
/// with a declared window of 2^23 / 2^27 (what high zstd levels announce in the frame header).
pub fn compress_with(ic: u8, data: &[u8], strength: u8) -> Result<Vec<u8>, String> {
    if strength != 0 {
        match ic {
            2 => {
                let lvl = if strength % 2 == 1 { 1 } else { 9 };
                let mut e = flate2::write::GzEncoder::new(Vec::new(), flate2::Compression::new(lvl));
                e.write_all(data).map_err(|e| e.to_string())?;
                return e.finish().map_err(|e| e.to_string());
            }
            3 => {
                let (q, w) = if strength % 2 == 1 { (1, 10) } else { (5, 24) };
                let mut out = Vec::new();
                {
                    let mut wr = brotli::CompressorWriter::new(&mut out, 4096, q, w);
                    wr.write_all(data).map_err(|e| e.to_string())?;
                    wr.flush().map_err(|e| e.to_string())?;
                }
                return Ok(out);
            }
            4 => {
                // a large declared window is what high compression levels put into the frame
                // header; setting it directly at a low level costs nothing
                let wlog = match strength % 3 {
                    0 => 0,
                    1 => 23,
                    _ => 27,
                };
                let mut e = zstd::stream::Encoder::new(Vec::new(), 1).map_err(|e| e.to_string())?;
                if wlog != 0 {
                    e.window_log(wlog).map_err(|e| e.to_string())?;
                }
                e.write_all(data).map_err(|e| e.to_string())?;
                return e.finish().map_err(|e| e.to_string());
            }
            _ => {}
        }
    }
    match ic {
        1 => Ok(data.to_vec()),
        2 => {
            let mut e = flate2::write::GzEncoder::new(Vec::new(), flate2::Compression::new(6));
            e.write_all(data).map_err(|e| e.to_string())?;
            e.finish().map_err(|e| e.to_string())
        }
        3 => {
            let mut out = Vec::new();
            {
                // quality 5: the oracle does not need the crate's quality 11
                let mut w = brotli::CompressorWriter::new(&mut out, 4096, 5, 22);
                w.write_all(data).map_err(|e| e.to_string())?;
                w.flush().map_err(|e| e.to_string())?;
            }
            Ok(out)
        }
        4 => zstd::stream::encode_all(data, 0).map_err(|e| e.to_string()),
        _ => Err(format!("compress: code {ic}")),
    }
}

pub fn decompress(ic: u8, data: &[u8]) -> Result<Vec<u8>, String> {
    decompress_limited(ic, data, 1 << 30)
}

pub fn decompress_limited(ic: u8, data: &[u8], limit: u64) -> Result<Vec<u8>, String> {
    let mut out = Vec::new();
    let r: Result<usize, std::io::Error> = match ic {
        1 => {
            out.extend_from_slice(data);
            Ok(data.len())
        }
        2 => flate2::read::MultiGzDecoder::new(data).take(limit).read_to_end(&mut out),
        3 => brotli::Decompressor::new(data, 4096).take(limit).read_to_end(&mut out),
        4 => match zstd::stream::read::Decoder::new(data) {
            Ok(d) => d.take(limit).read_to_end(&mut out),
            Err(e) => Err(e),
        },
        _ => return Err(format!("decompress: code {ic}")),
    };
    r.map_err(|e| format!("decompress({ic}): {e}"))?;
    if out.len() as u64 >= limit {
        return Err("decompress: output limit".into());
    }
    Ok(out)
}

/// Decodes as much as can be decoded (a streaming reader sees exactly this prefix before it hits
/// the error): never fails, returns the partial output.
pub fn decompress_lenient(ic: u8, data: &[u8], limit: usize) -> Vec<u8> {
    fn drain(mut r: impl Read, limit: usize) -> Vec<u8> {
        // one byte per read call: a decoder that fails while filling a larger buffer reports the
        // error for the whole call and the bytes it had already produced are lost, whereas a
        // reader pulling single bytes (as a varint parser does) receives every one of them
        let mut out = Vec::new();
        let mut buf = [0u8; 1];
        while out.len() < limit {
            match r.read(&mut buf) {
                Ok(0) | Err(_) => break,
                Ok(n) => out.extend_from_slice(&buf[..n]),
            }
        }
        out
    }
    match ic {
        1 => data[..data.len().min(limit)].to_vec(),
        2 => drain(flate2::read::GzDecoder::new(data), limit),
        3 => drain(brotli::Decompressor::new(data, 4096), limit),
        4 => match zstd::stream::read::Decoder::new(data) {
            Ok(d) => drain(d, limit),
            Err(_) => Vec::new(),
        },
        _ => Vec::new(),
    }
}

/// Like `decompress_lenient`, but through the asynchronous decoders (they differ from the
/// synchronous ones in how much of a damaged or truncated stream they hand out before failing).
pub fn decompress_lenient_async(ic: u8, data: &[u8], limit: usize) -> Vec<u8> {
    use async_compression::futures::bufread::{BrotliDecoder, GzipDecoder, ZstdDecoder};
    use futures::io::{AsyncRead, AsyncReadExt, BufReader};
    async fn drain(mut r: impl AsyncRead + Unpin, limit: usize) -> Vec<u8> {
        let mut out = Vec::new();
        let mut buf = [0u8; 1];
        while out.len() < limit {
            match r.read(&mut buf).await {
                Ok(0) | Err(_) => break,
                Ok(n) => out.extend_from_slice(&buf[..n]),
            }
        }
        out
    }
    // how much comes out before the failure depends on how the input arrives: try it whole and
    // one byte at a time, keep the longer output
    let mut best: Vec<u8> = Vec::new();
    for cap in [8192usize, 1] {
        let r = match ic {
            1 => return data[..data.len().min(limit)].to_vec(),
            2 => crate::exec::block_on(drain(GzipDecoder::new(BufReader::with_capacity(cap, data)), limit)),
            3 => crate::exec::block_on(drain(BrotliDecoder::new(BufReader::with_capacity(cap, data)), limit)),
            4 => crate::exec::block_on(drain(ZstdDecoder::new(BufReader::with_capacity(cap, data)), limit)),
            _ => return Vec::new(),
        };
        let r = r.unwrap_or_default();
        if r.len() > best.len() {
            best = r;
        }
    }
    best
}

// ---------------------------------------------------------------------------------------------
// directory walk

#[derive(Clone, Debug)]
pub struct DirInfo {
    pub abs_offset: u64,
    pub length: u64,
    pub depth: u32,
    pub entries: Vec<SpecEntry>,
}

#[derive(Clone, Debug, Default)]
pub struct Walk {
    /// tile id → (offset relative to the tile-data section, length)
    pub tiles: BTreeMap<u64, (u64, u32)>,
    pub dirs: Vec<DirInfo>,
    /// all tile entries in the order met by a depth-first walk
    pub tile_entries: Vec<SpecEntry>,
    pub max_depth: u32,
}

#[derive(Clone, Debug, PartialEq, Eq)]
pub enum WalkErr {
    Invalid(String),
    /// the archive legitimately(?) declares more work than the budget
    Budget(String),
}

#[derive(Clone, Copy, Debug)]
pub struct Limits {
    pub max_depth: u32,
    pub max_tiles: u64,
    pub max_dirs: u64,
}

impl Limits {
    pub const VALID: Limits = Limits { max_depth: 8, max_tiles: 40_000_000, max_dirs: 2_000_000 };
}

fn slice(image: &[u8], off: u64, len: u64) -> Result<&[u8], String> {
    let end = off.checked_add(len).ok_or("range overflow")?;
    if end > image.len() as u64 {
        return Err(format!("range {off}+{len} outside file of {} bytes", image.len()));
    }
    Ok(&image[off as usize..end as usize])
}

pub fn read_dir_at(image: &[u8], ic: u8, off: u64, len: u64) -> Result<Vec<SpecEntry>, String> {
    let raw = slice(image, off, len)?;
    let plain = decompress(ic, raw)?;
    decode_dir(&plain)
}

pub fn walk(image: &[u8], h: &SpecHeader, lim: Limits) -> Result<Walk, WalkErr> {
    let mut w = Walk::default();
    let mut budget_tiles = 0u64;
    let mut visiting: HashSet<(u64, u64)> = HashSet::new();
    walk_rec(image, h, lim, h.root_offset, h.root_length, 0, &mut w, &mut budget_tiles, &mut visiting)?;
    Ok(w)
}

#[allow(clippy::too_many_arguments)]
fn walk_rec(
    image: &[u8],
    h: &SpecHeader,
    lim: Limits,
    off: u64,
    len: u64,
    depth: u32,
    w: &mut Walk,
    budget_tiles: &mut u64,
    visiting: &mut HashSet<(u64, u64)>,
) -> Result<(), WalkErr> {
    if depth > lim.max_depth {
        return Err(WalkErr::Budget(format!("directory depth > {}", lim.max_depth)));
    }
    if !visiting.insert((off, len)) {
        return Err(WalkErr::Invalid("leaf pointer cycle".into()));
    }
    if w.dirs.len() as u64 >= lim.max_dirs {
        return Err(WalkErr::Budget("too many directories".into()));
    }
    let entries = read_dir_at(image, h.ic, off, len).map_err(WalkErr::Invalid)?;
    w.max_depth = w.max_depth.max(depth);
    w.dirs.push(DirInfo { abs_offset: off, length: len, depth, entries: entries.clone() });
    for e in &entries {
        if e.run_length == 0 {
            let lo = h.leaf_offset.checked_add(e.offset).ok_or_else(|| WalkErr::Invalid("leaf offset overflow".into()))?;
            walk_rec(image, h, lim, lo, u64::from(e.length), depth + 1, w, budget_tiles, visiting)?;
        } else {
            *budget_tiles += u64::from(e.run_length);
            if *budget_tiles > lim.max_tiles {
                return Err(WalkErr::Budget("too many addressed tiles".into()));
            }
            let end = e.tile_id.checked_add(u64::from(e.run_length)).ok_or_else(|| WalkErr::Invalid("tile id + run overflow".into()))?;
            for id in e.tile_id..end {
                w.tiles.insert(id, (e.offset, e.length));
            }
            w.tile_entries.push(*e);
        }
    }
    visiting.remove(&(off, len));
    Ok(())
}

/// The specification's lookup procedure: binary search for the last entry with tile_id <= id,
/// follow leaf pointers (at most 4 levels), check the run covers the id.
pub fn lookup(image: &[u8], h: &SpecHeader, id: u64) -> Result<Option<(u64, u32)>, String> {
    let mut off = h.root_offset;
    let mut len = h.root_length;
    for _depth in 0..=4 {
        let dir = read_dir_at(image, h.ic, off, len)?;
        let Some(e) = find_in_dir(&dir, id) else {
            return Ok(None);
        };
        if e.run_length == 0 {
            off = h.leaf_offset.checked_add(e.offset).ok_or("leaf offset overflow")?;
            len = u64::from(e.length);
            continue;
        }
        return Ok(Some((e.offset, e.length)));
    }
    Err("lookup: directory depth exceeded".into())
}

/// Spec `find_tile`: entries sorted by tile_id.
pub fn find_in_dir(dir: &[SpecEntry], id: u64) -> Option<SpecEntry> {
    let mut m: i64 = 0;
    let mut n: i64 = dir.len() as i64 - 1;
    while m <= n {
        let k = (n + m) >> 1;
        let e = dir[k as usize];
        if id > e.tile_id {
            m = k + 1;
        } else if id < e.tile_id {
            n = k - 1;
        } else {
            return Some(e);
        }
    }
    if n >= 0 {
        let e = dir[n as usize];
        if e.run_length == 0 {
            return Some(e);
        }
        if id - e.tile_id < u64::from(e.run_length) {
            return Some(e);
        }
    }
    None
}

// ---------------------------------------------------------------------------------------------
// validator for archives the crate wrote

#[derive(Clone, Debug)]
pub struct Validated {
    pub header: SpecHeader,
    pub walk: Walk,
    pub meta: serde_json::Value,
    pub distinct_contents: u64,
}

fn overlap(a: (u64, u64), b: (u64, u64)) -> bool {
    // zero-length sections overlap nothing
    a.1 > 0 && b.1 > 0 && a.0 < b.0 + b.1 && b.0 < a.0 + a.1
}

/// Full structural validation of a file against the v3 specification (strict writer-side rules).
pub fn validate(image: &[u8]) -> Result<Validated, String> {
    validate_opts(image, false)
}

/// `unknown_ok`: a header counter of 0 is read as "unknown", as the specification allows (used
/// for archives of other writers; what the crate itself writes is held to the exact counts).
pub fn validate_opts(image: &[u8], unknown_ok: bool) -> Result<Validated, String> {
    let h = parse_header(image)?;
    if !(1..=4).contains(&h.ic) {
        return Err(format!("internal compression code {}", h.ic));
    }
    if !valid_compression_code(h.tc) {
        return Err(format!("tile compression code {}", h.tc));
    }
    if h.tt > 6 {
        return Err(format!("tile type code {}", h.tt));
    }
    if h.clustered > 1 {
        return Err(format!("clustered byte {}", h.clustered));
    }
    let secs = [
        ("header", 0u64, HEADER_LEN as u64),
        ("root", h.root_offset, h.root_length),
        ("meta", h.meta_offset, h.meta_length),
        ("leaf", h.leaf_offset, h.leaf_length),
        ("data", h.data_offset, h.data_length),
    ];
    for (name, off, len) in secs {
        let end = off.checked_add(len).ok_or(format!("{name}: offset+length overflows"))?;
        if end > image.len() as u64 {
            return Err(format!("{name} section {off}+{len} outside file of {} bytes", image.len()));
        }
    }
    for i in 0..secs.len() {
        for j in i + 1..secs.len() {
            if overlap((secs[i].1, secs[i].2), (secs[j].1, secs[j].2)) {
                return Err(format!("sections {} and {} overlap", secs[i].0, secs[j].0));
            }
        }
    }
    if h.root_offset < HEADER_LEN as u64 {
        return Err("root directory inside header".into());
    }
    if h.root_length == 0 {
        return Err("root directory has length 0".into());
    }
    if h.root_offset + h.root_length > ROOT_BUDGET_END {
        return Err(format!("header+root directory end at {} > 16384", h.root_offset + h.root_length));
    }
    let w = walk(image, &h, Limits::VALID).map_err(|e| format!("walk: {e:?}"))?;

    // per-directory rules
    for d in &w.dirs {
        if d.depth > 0 {
            // leaf: must lie inside the leaf section
            if d.abs_offset < h.leaf_offset || d.abs_offset + d.length > h.leaf_offset + h.leaf_length {
                return Err(format!("leaf directory at {}+{} outside leaf section", d.abs_offset, d.length));
            }
            if d.entries.is_empty() {
                return Err("empty leaf directory".into());
            }
        }
        let mut prev_end: Option<u64> = None;
        for e in &d.entries {
            if let Some(pe) = prev_end {
                if e.tile_id < pe {
                    return Err(format!("entries not strictly ascending / overlapping at tile {}", e.tile_id));
                }
            }
            prev_end = Some(if e.run_length == 0 { e.tile_id + 1 } else { e.tile_id + u64::from(e.run_length) });
            if e.run_length != 0 {
                let end = e.offset.checked_add(u64::from(e.length)).ok_or("tile range overflow")?;
                if end > h.data_length {
                    return Err(format!("tile {} range {}+{} outside tile-data section of {}", e.tile_id, e.offset, e.length, h.data_length));
                }
            }
        }
    }
    // global order across the depth-first walk
    let mut prev_end = 0u64;
    let mut first = true;
    for e in &w.tile_entries {
        if !first && e.tile_id < prev_end {
            return Err(format!("tile entries overlap across directories at tile {}", e.tile_id));
        }
        first = false;
        prev_end = e.tile_id + u64::from(e.run_length);
    }
    // a leaf pointer's tile id must not exceed the first id of its leaf (lookup correctness)
    // (checked end-to-end by lookup below)

    // counters
    let addressed: u64 = w.tile_entries.iter().map(|e| u64::from(e.run_length)).sum();
    if h.n_addressed != addressed && !(unknown_ok && h.n_addressed == 0) {
        return Err(format!("header addressed tiles {} != recomputed {}", h.n_addressed, addressed));
    }
    if h.n_entries != w.tile_entries.len() as u64 && !(unknown_ok && h.n_entries == 0) {
        return Err(format!("header tile entries {} != recomputed {}", h.n_entries, w.tile_entries.len()));
    }
    let distinct: HashSet<(u64, u32)> = w.tile_entries.iter().map(|e| (e.offset, e.length)).collect();
    if h.n_contents != distinct.len() as u64 && !(unknown_ok && h.n_contents == 0) {
        return Err(format!("header tile contents {} != recomputed {}", h.n_contents, distinct.len()));
    }
    // clustered flag
    if h.clustered == 1 {
        let mut running_end = 0u64;
        let mut seen: HashSet<(u64, u32)> = HashSet::new();
        for e in &w.tile_entries {
            if e.offset == running_end {
                running_end += u64::from(e.length);
                seen.insert((e.offset, e.length));
            } else if !seen.contains(&(e.offset, e.length)) {
                return Err(format!("clustered=1 but tile {} at offset {} is neither next ({}) nor a back-reference", e.tile_id, e.offset, running_end));
            }
        }
    }
    // metadata
    let meta = if h.meta_length == 0 {
        serde_json::Value::Object(serde_json::Map::new())
    } else {
        let raw = slice(image, h.meta_offset, h.meta_length)?;
        let plain = decompress(h.ic, raw).map_err(|e| format!("metadata: {e}"))?;
        let v: serde_json::Value = serde_json::from_slice(&plain).map_err(|e| format!("metadata: {e}"))?;
        if !v.is_object() {
            return Err("metadata is not a JSON object".into());
        }
        v
    };
    Ok(Validated { header: h, distinct_contents: distinct.len() as u64, walk: w, meta })
}

/// Bytes of a tile as an independent reader sees them.
pub fn tile_bytes<'a>(image: &'a [u8], h: &SpecHeader, off: u64, len: u32) -> Result<&'a [u8], String> {
    let abs = h.data_offset.checked_add(off).ok_or("tile offset overflow")?;
    slice(image, abs, u64::from(len))
}

// ---------------------------------------------------------------------------------------------
// Hilbert ids (classic xy2d formulation, as in the reference implementations)

pub fn zoom_base(z: u8) -> u64 {
    // sum_{i<z} 4^i = (4^z - 1) / 3
    ((1u128 << (2 * u32::from(z))) - 1).wrapping_div(3) as u64
}

pub fn zxy_to_id(z: u8, x: u64, y: u64) -> u64 {
    assert!(z <= 31);
    let n: u64 = 1 << z;
    assert!(x < n && y < n);
    let (mut tx, mut ty) = (x, y);
    let mut d: u64 = 0;
    let mut s = n / 2;
    while s > 0 {
        let rx = u64::from(tx & s > 0);
        let ry = u64::from(ty & s > 0);
        d += s * s * ((3 * rx) ^ ry);
        if ry == 0 {
            if rx == 1 {
                tx = n - 1 - tx;
                ty = n - 1 - ty;
            }
            std::mem::swap(&mut tx, &mut ty);
        }
        s /= 2;
    }
    zoom_base(z) + d
}

pub fn id_to_zxy(id: u64) -> Option<(u8, u64, u64)> {
    let mut z = 0u8;
    loop {
        if z > 31 {
            return None;
        }
        let next = zoom_base(z + 1);
        if z == 31 {
            // zoom_base(32) = (2^64-1)/3 fits in u64
        }
        if id < next {
            break;
        }
        z += 1;
    }
    let n: u64 = 1 << z;
    let mut t = id - zoom_base(z);
    let (mut x, mut y) = (0u64, 0u64);
    let mut s = 1u64;
    while s < n {
        let rx = 1 & (t / 2);
        let ry = 1 & (t ^ rx);
        if ry == 0 {
            if rx == 1 {
                x = s - 1 - x;
                y = s - 1 - y;
            }
            std::mem::swap(&mut x, &mut y);
        }
        x += s * rx;
        y += s * ry;
        t /= 4;
        s *= 2;
    }
    Some((z, x, y))
}

/// Harness self-test of the independent Hilbert implementation (known values from the
/// specification, forward/inverse consistency). A failure is a harness defect (exit 2).
pub fn selftest() -> Result<(), String> {
    let known = [((0u8, 0u64, 0u64), 0u64), ((1, 0, 0), 1), ((1, 0, 1), 2), ((1, 1, 1), 3), ((1, 1, 0), 4), ((2, 0, 0), 5), ((12, 3423, 1763), 19_078_479)];
    for ((z, x, y), id) in known {
        if zxy_to_id(z, x, y) != id {
            return Err(format!("spec hilbert: ({z},{x},{y}) -> {} expected {id}", zxy_to_id(z, x, y)));
        }
        if id_to_zxy(id) != Some((z, x, y)) {
            return Err(format!("spec hilbert: id {id} -> {:?} expected ({z},{x},{y})", id_to_zxy(id)));
        }
    }
    let mut r = crate::rng::Rng::new(1);
    for _ in 0..2000 {
        let id = r.range(0, max_valid_id());
        let Some((z, x, y)) = id_to_zxy(id) else {
            return Err(format!("spec hilbert: id {id} has no coordinates"));
        };
        if zxy_to_id(z, x, y) != id {
            return Err(format!("spec hilbert: id {id} -> ({z},{x},{y}) -> {}", zxy_to_id(z, x, y)));
        }
    }
    if id_to_zxy(max_valid_id() + 1).is_some() || zoom_base(1) != 1 || zoom_base(2) != 5 {
        return Err("spec hilbert: zoom bases".into());
    }
    // exact coordinate rule: known cases
    if nearest_e7(2.1e-6) != Some((21, 21)) || nearest_e7(-180.0) != Some((-1_800_000_000, -1_800_000_000)) || nearest_e7(0.0) != Some((0, 0)) {
        return Err("coordinate rule self-test".into());
    }
    Ok(())
}

/// Largest valid tile id (last id of zoom 31).
pub fn max_valid_id() -> u64 {
    zoom_base(32) - 1
}

// ---------------------------------------------------------------------------------------------
// exact coordinate rule

/// The set of stored integers that are "a nearest multiple of 1e-7" for the degrees value `d`:
/// computed exactly (a finite f64 is a dyadic rational). Returns (lo, hi) with lo == hi except
/// inside a 2^-20 band around a half-integer, where either neighbour is accepted.
pub fn nearest_e7(d: f64) -> Option<(i64, i64)> {
    if !d.is_finite() {
        return None;
    }
    if d == 0.0 {
        return Some((0, 0));
    }
    let bits = d.to_bits();
    let neg = bits >> 63 == 1;
    let exp = ((bits >> 52) & 0x7ff) as i64;
    let frac = bits & ((1u64 << 52) - 1);
    let (m, e) = if exp == 0 { (frac, -1074i64) } else { (frac | (1u64 << 52), exp - 1075) };
    // |d| = m * 2^e ; product = m * 10^7 * 2^e
    let nn: u128 = u128::from(m) * 10_000_000u128; // < 2^77
    let (floor, twice_rem_cmp): (u128, i8);
    let near_tie: bool;
    if e >= 0 {
        if e > 40 {
            return None; // far outside i32 anyway
        }
        floor = nn << e;
        twice_rem_cmp = -1;
        near_tie = false;
    } else {
        let k = (-e) as u32;
        if k >= 127 {
            floor = 0;
            twice_rem_cmp = -1;
            near_tie = false;
        } else {
            let fl = nn >> k;
            let rem = nn - (fl << k); // < 2^k
            let half = 1u128 << (k - 1);
            floor = fl;
            twice_rem_cmp = match rem.cmp(&half) {
                std::cmp::Ordering::Less => -1,
                std::cmp::Ordering::Equal => 0,
                std::cmp::Ordering::Greater => 1,
            };
            // |rem - half| / 2^k < 2^-20  <=>  |rem-half| < 2^(k-20)
            let diff = if rem > half { rem - half } else { half - rem };
            near_tie = if k >= 20 { diff < (1u128 << (k - 20)) } else { diff == 0 };
        }
    }
    if floor > (1u128 << 40) {
        return None;
    }
    let fl = floor as i64;
    let (lo, hi) = if near_tie {
        (fl, fl + 1)
    } else if twice_rem_cmp > 0 {
        (fl + 1, fl + 1)
    } else {
        (fl, fl)
    };
    Some(if neg { (-hi, -lo) } else { (lo, hi) })
}

// ---------------------------------------------------------------------------------------------
// foreign writer: emits spec-valid archives in layouts the crate's own writer never produces

#[derive(Clone, Debug, Serialize, Deserialize, PartialEq, Eq)]
pub struct Layout {
    /// order of the four sections after the header: 0 root, 1 meta, 2 leaf, 3 data
    pub order: [u8; 4],
    /// padding (random bytes) before each section and after the last
    pub gaps: [u32; 5],
    pub ic: u8,
    /// number of leaf levels below the root (0 = root only)
    pub levels: u8,
    /// entries per leaf directory (varied by seed around this)
    pub fanout: u32,
    /// keep some tile entries / pointers inline in the parent instead of in a leaf
    pub mixed: bool,
    /// leaf directories placed in shuffled order with gaps inside the leaf section
    pub shuffle_leaves: bool,
    /// emit zero-length metadata section
    pub empty_meta: bool,
    pub seed: u64,
    /// leaf pointers may carry a tile id below their leaf's first id (still above everything
    /// before them): the lookup procedure only needs "last entry with id <= target"
    #[serde(default)]
    pub loose_ptr: bool,
    /// arrange data / leaf placement so that an entry directly after an entry of the other kind
    /// (tile after leaf pointer, pointer after tile) gets the wire offset 0 ("contiguous")
    #[serde(default)]
    pub kind_coincidence: bool,
    /// encoder parameters of the foreign writer (see `compress_with`)
    #[serde(default)]
    pub strength: u8,
    /// header counters written as 0 = "unknown" (bit 0 addressed tiles, bit 1 tile entries,
    /// bit 2 tile contents): the specification lets a writer leave each of them out
    #[serde(default)]
    pub unknown_counters: u8,
}

#[derive(Clone, Debug)]
pub struct ForeignArchive {
    pub image: Vec<u8>,
    pub header: SpecHeader,
    /// number of leaf levels actually used
    pub levels: u8,
}

#[allow(clippy::too_many_arguments)]
pub fn write_foreign(
    tile_entries: &[SpecEntry],
    data_section: &[u8],
    meta_plain: &[u8],
    hdr_template: &SpecHeader,
    layout: &Layout,
    n_contents: u64,
    clustered: u8,
) -> Result<ForeignArchive, String> {
    let mut rng = crate::rng::Rng::new(layout.seed);
    let ic = layout.ic;
    let mut data: Vec<u8> = data_section.to_vec();
    // build the directory tree bottom-up
    let mut leaf_section: Vec<u8> = Vec::new();
    let mut current: Vec<SpecEntry> = tile_entries.to_vec();
    let mut levels_used = 0u8;
    let mut want_levels = layout.levels;
    loop {
        if want_levels == 0 {
            let enc = compress_with(ic, &encode_dir(&current), layout.strength)?;
            if enc.len() as u64 + HEADER_LEN as u64 + u64::from(layout.gaps[0].min(64)) <= ROOT_BUDGET_END - 200 {
                break;
            }
            want_levels = 1; // does not fit: needs (another) leaf level
        }
        // split `current` into chunks → leaf directories
        let mut chunks: Vec<Vec<SpecEntry>> = Vec::new();
        let mut inline_flags: Vec<bool> = Vec::new();
        let mut i = 0usize;
        let fan = layout.fanout.max(1) as usize;
        while i < current.len() {
            let sz = (1 + rng.usize_below(fan * 2)).min(current.len() - i);
            chunks.push(current[i..i + sz].to_vec());
            inline_flags.push(layout.mixed && rng.chance(20));
            i += sz;
        }
        // serialise leaves (order of placement possibly shuffled)
        let mut blobs: Vec<Option<Vec<u8>>> = Vec::new();
        for (c, inl) in chunks.iter().zip(&inline_flags) {
            if *inl {
                blobs.push(None);
            } else {
                blobs.push(Some(compress_with(ic, &encode_dir(c), layout.strength)?));
            }
        }
        let mut place: Vec<usize> = (0..chunks.len()).filter(|i| blobs[*i].is_some()).collect();
        if layout.shuffle_leaves {
            rng.shuffle(&mut place);
        }
        let mut offs: Vec<(u64, u32)> = vec![(0, 0); chunks.len()];
        for ix in place {
            if layout.shuffle_leaves && rng.chance(30) {
                let g = rng.usize_below(9);
                for _ in 0..g {
                    leaf_section.push(rng.next_u64() as u8);
                }
            }
            let b = blobs[ix].as_ref().unwrap();
            offs[ix] = (leaf_section.len() as u64, b.len() as u32);
            leaf_section.extend_from_slice(b);
        }
        let mut parent: Vec<SpecEntry> = Vec::new();
        let mut prev_last: Option<u64> = None;
        for (ix, c) in chunks.iter().enumerate() {
            if blobs[ix].is_none() {
                parent.extend_from_slice(c);
            } else {
                let first = c[0].tile_id;
                let tid = match (layout.loose_ptr, prev_last) {
                    (true, Some(pl)) if first > pl + 1 => pl + 1 + rng.below(first - pl),
                    (true, None) if first > 0 => rng.below(first + 1),
                    _ => first,
                };
                parent.push(SpecEntry { tile_id: tid, offset: offs[ix].0, length: offs[ix].1, run_length: 0 });
            }
            prev_last = c.last().map(|e| if e.run_length == 0 { e.tile_id } else { e.tile_id + u64::from(e.run_length) - 1 });
        }
        if layout.kind_coincidence && levels_used == 0 {
            // a tile entry right after a leaf pointer: store a copy of its content at data offset
            // pointer.offset + pointer.length, so the wire offset of the tile entry becomes 0
            for i in 1..parent.len() {
                let (p, t) = (parent[i - 1], parent[i]);
                if p.run_length == 0 && t.run_length != 0 {
                    let target = p.offset + u64::from(p.length);
                    if target >= data.len() as u64 && target < (1 << 20) {
                        let src = t.offset as usize;
                        let bytes = data[src..src + t.length as usize].to_vec();
                        data.resize(target as usize, 0xDD);
                        data.extend_from_slice(&bytes);
                        parent[i].offset = target;
                    }
                }
            }
        }
        if chunks.is_empty() {
            // nothing to split; cannot add a level
            break;
        }
        current = parent;
        levels_used += 1;
        want_levels = want_levels.saturating_sub(1);
        if levels_used >= 6 {
            return Err("foreign writer: directory tree does not converge".into());
        }
    }
    let root = compress_with(ic, &encode_dir(&current), layout.strength)?;
    let meta = if layout.empty_meta { Vec::new() } else { compress_with(ic, meta_plain, layout.strength)? };

    // lay out sections
    let sections: [&[u8]; 4] = [&root, &meta, &leaf_section, &data];
    let mut order = layout.order;
    let mut gaps = layout.gaps;
    let try_layout = |order: &[u8; 4], gaps: &[u32; 5]| -> (Vec<u8>, [(u64, u64); 4]) {
        let mut img = vec![0u8; HEADER_LEN];
        let mut pos = [(0u64, 0u64); 4];
        let mut r = crate::rng::Rng::new(layout.seed ^ 0xabcdef);
        for (k, s) in order.iter().enumerate() {
            for _ in 0..gaps[k] {
                img.push(r.next_u64() as u8 | 1);
            }
            pos[*s as usize] = (img.len() as u64, sections[*s as usize].len() as u64);
            img.extend_from_slice(sections[*s as usize]);
        }
        for _ in 0..gaps[4] {
            img.push(r.next_u64() as u8 | 1);
        }
        (img, pos)
    };
    let (mut img, mut pos) = try_layout(&order, &gaps);
    if pos[0].0 + pos[0].1 > ROOT_BUDGET_END {
        // the specification wants header + root inside the first 16 KiB: fall back to root first
        order = [0, 1, 2, 3];
        gaps[0] = gaps[0].min(64);
        let r = try_layout(&order, &gaps);
        img = r.0;
        pos = r.1;
        if pos[0].0 + pos[0].1 > ROOT_BUDGET_END {
            return Err("foreign writer: root does not fit".into());
        }
    }
    let mut h = hdr_template.clone();
    h.root_offset = pos[0].0;
    h.root_length = pos[0].1;
    h.meta_offset = pos[1].0;
    h.meta_length = pos[1].1;
    h.leaf_offset = pos[2].0;
    h.leaf_length = pos[2].1;
    h.data_offset = pos[3].0;
    h.data_length = pos[3].1;
    h.ic = ic;
    h.n_addressed = tile_entries.iter().map(|e| u64::from(e.run_length)).sum();
    h.n_entries = tile_entries.len() as u64;
    h.n_contents = n_contents;
    h.clustered = clustered;
    if layout.unknown_counters & 1 != 0 {
        h.n_addressed = 0;
    }
    if layout.unknown_counters & 2 != 0 {
        h.n_entries = 0;
    }
    if layout.unknown_counters & 4 != 0 {
        h.n_contents = 0;
    }
    img[..HEADER_LEN].copy_from_slice(&encode_header(&h));
    if layout.kind_coincidence {
        // contents may have been re-placed: recount from the writer's own output
        if let Ok(w) = walk(&img, &h, Limits::VALID) {
            let distinct: HashSet<(u64, u32)> = w.tile_entries.iter().map(|e| (e.offset, e.length)).collect();
            h.n_contents = if layout.unknown_counters & 4 != 0 { 0 } else { distinct.len() as u64 };
            h.clustered = 0;
            img[..HEADER_LEN].copy_from_slice(&encode_header(&h));
        }
    }
    Ok(ForeignArchive { image: img, header: h, levels: levels_used })
}
