//! Serializable case vocabulary shared by all scenarios (what a replay file contains), the
//! reference model, and the seeded generators. Floats are stored as bit patterns and metadata as
//! a generator spec so that a replay file reproduces the case bit-exactly.

use std::collections::BTreeMap;

use serde::{Deserialize, Serialize};
use serde_json::{Map, Number, Value};

use crate::disk::Policy;
use crate::rng::Rng;
use crate::spec;

// ---------------------------------------------------------------------------------------------
// contents

#[derive(Clone, Copy, Debug, Serialize, Deserialize, PartialEq, Eq, Hash, PartialOrd, Ord)]
pub struct Cont {
    /// 0 random bytes, 1 one repeated byte, 2 near-duplicate family (same length+prefix, last
    /// byte differs), 3 text-like (also 5..), 4 near-duplicate family whose members differ in one
    /// byte anywhere inside
    pub k: u8,
    pub seed: u32,
    pub len: u32,
}

impl Cont {
    pub fn bytes(&self) -> Vec<u8> {
        let len = self.len as usize;
        let mut v = vec![0u8; len];
        match self.k {
            0 => Rng::new(u64::from(self.seed) ^ 0xC0FFEE).fill(&mut v),
            1 => v.fill(self.seed as u8),
            2 => {
                // family determined by length only; members differ in the last byte
                Rng::new(0xFA111E ^ u64::from(self.len)).fill(&mut v);
                if let Some(l) = v.last_mut() {
                    *l = self.seed as u8;
                }
            }
            4 => {
                // family determined by length only; members differ in one single byte somewhere
                // inside (position and value by the seed; seed 0 is the unmodified base)
                Rng::new(0xFA4117 ^ u64::from(self.len)).fill(&mut v);
                if self.seed != 0 && len > 0 {
                    let mut r = Rng::new(u64::from(self.seed) ^ 0xD1FF);
                    let at = r.usize_below(len);
                    v[at] ^= 1 + r.below(255) as u8;
                }
            }
            _ => {
                let words = [&b"water"[..], b"landuse", b"{\"layer\":", b"roads ", b"0,0,", b"name:en", b"\n"];
                let mut r = Rng::new(u64::from(self.seed) ^ 0x7E87);
                let mut i = 0;
                while i < len {
                    let w = words[r.usize_below(words.len())];
                    let n = w.len().min(len - i);
                    v[i..i + n].copy_from_slice(&w[..n]);
                    i += n;
                }
            }
        }
        v
    }
    pub fn draw(rng: &mut Rng, pool: ContPool) -> Cont {
        match pool {
            ContPool::Colliding => {
                // few contents sharing length and prefix
                let len = *rng.pick(&[1u32, 2, 7, 64]);
                Cont { k: 2, seed: rng.below(3) as u32, len }
            }
            ContPool::Tagged => Cont { k: 0, seed: rng.next_u64() as u32, len: 1 + rng.below(40) as u32 },
            ContPool::Mixed => match rng.below(10) {
                0..=2 => Cont { k: 2, seed: rng.below(4) as u32, len: *rng.pick(&[1u32, 3, 16, 300]) },
                3 => Cont { k: 1, seed: rng.below(256) as u32, len: 1 + rng.log_range(1, 5000) as u32 },
                4 => Cont { k: 3, seed: rng.below(1000) as u32, len: 1 + rng.log_range(1, 20_000) as u32 },
                5 => Cont { k: 0, seed: rng.below(50) as u32, len: 1 + rng.log_range(1, 100_000) as u32 },
                _ => Cont { k: 0, seed: rng.below(1 << 20) as u32, len: 1 + rng.log_range(1, 600) as u32 },
            },
        }
    }
}

#[derive(Clone, Copy, Debug, PartialEq, Eq)]
pub enum ContPool {
    Colliding,
    Tagged,
    Mixed,
}

// ---------------------------------------------------------------------------------------------
// ids

#[derive(Clone, Copy, Debug, PartialEq, Eq)]
pub enum IdAlpha {
    /// 0..=5
    Small,
    /// runs of adjacent ids around a few bases
    Clustered,
    /// anywhere in the valid domain (zooms 0..=31)
    Whole,
    /// zoom-block edges ±1, 0, largest valid id
    Edges,
    /// dense low ids 0..n
    Dense(u64),
}

pub fn draw_id(rng: &mut Rng, a: IdAlpha) -> u64 {
    let maxid = spec::max_valid_id();
    match a {
        IdAlpha::Small => rng.below(6),
        IdAlpha::Dense(n) => rng.below(n.max(1)),
        IdAlpha::Clustered => {
            let bases = [0u64, 5, 21, 85, 1000, 1 << 20, spec::zoom_base(12) - 3, spec::zoom_base(20), maxid - 40];
            let b = *rng.pick(&bases);
            (b + rng.below(24)).min(maxid)
        }
        IdAlpha::Whole => {
            if rng.chance(50) {
                // uniform over zoom first so low zooms are represented
                let z = rng.below(32) as u8;
                let lo = spec::zoom_base(z);
                let hi = spec::zoom_base(z + 1) - 1;
                rng.range(lo, hi)
            } else {
                rng.range(0, maxid)
            }
        }
        IdAlpha::Edges => {
            let z = 1 + rng.below(32) as u8; // 1..=32
            let b = spec::zoom_base(z);
            match rng.below(5) {
                0 => b.saturating_sub(1),
                1 => b.min(maxid),
                2 => (b + 1).min(maxid),
                3 => maxid,
                _ => 0,
            }
        }
    }
}

pub fn draw_alpha(rng: &mut Rng) -> IdAlpha {
    match rng.below(10) {
        0..=2 => IdAlpha::Small,
        3..=5 => IdAlpha::Clustered,
        6 | 7 => IdAlpha::Whole,
        8 => IdAlpha::Edges,
        _ => IdAlpha::Dense(1 + rng.log_range(1, 400)),
    }
}

// ---------------------------------------------------------------------------------------------
// settings & metadata

#[derive(Clone, Debug, Serialize, Deserialize, PartialEq, Eq)]
pub struct Settings {
    pub tt: u8,
    pub tc: u8,
    pub ic: u8,
    pub minz: u8,
    pub maxz: u8,
    pub cz: u8,
    /// f64 bit patterns: min_lon, min_lat, max_lon, max_lat, center_lon, center_lat
    pub coords: [u64; 6],
}

impl Settings {
    pub fn plain(ic: u8) -> Self {
        Settings { tt: 1, tc: 1, ic, minz: 0, maxz: 0, cz: 0, coords: [0f64.to_bits(); 6] }
    }
    pub fn coord(&self, i: usize) -> f64 {
        f64::from_bits(self.coords[i])
    }
    pub fn draw(rng: &mut Rng, ic: u8) -> Self {
        let mut coords = [0u64; 6];
        for (i, c) in coords.iter_mut().enumerate() {
            let lim = if i % 2 == 0 { 180.0 } else { 90.0 };
            *c = draw_coord(rng, lim).to_bits();
        }
        let z = |rng: &mut Rng| if rng.chance(70) { rng.below(32) as u8 } else { rng.below(256) as u8 };
        Settings { tt: rng.below(6) as u8, tc: rng.below(5) as u8, ic, minz: z(rng), maxz: z(rng), cz: z(rng), coords }
    }
}

/// In-range coordinate in degrees: multiples of 1e-7, half-steps ± ulps, limits, plain random.
pub fn draw_coord(rng: &mut Rng, lim: f64) -> f64 {
    let n_max = (lim * 1e7) as i64;
    let n = rng.range(0, (2 * n_max) as u64) as i64 - n_max;
    let v = match rng.below(9) {
        0 => 0.0,
        1 => *rng.pick(&[lim, -lim]),
        2 => n as f64 / 1e7,
        3 => {
            // half-step, nudged by a few ulps either way
            let h = (n as f64 + 0.5) / 1e7;
            let k = rng.below(5) as i64 - 2;
            f64::from_bits((h.to_bits() as i64 + k) as u64)
        }
        4 => {
            // small magnitudes where truncation vs rounding differ most visibly
            let m = rng.range(0, 400) as f64 / 10.0;
            let s = if rng.chance(50) { -1.0 } else { 1.0 };
            s * m * 1e-7
        }
        5 => n as f64 / 1e7 + (rng.below(99) as f64 + 0.5) * 1e-9,
        _ => {
            let u = rng.next_u64() as f64 / u64::MAX as f64;
            (u * 2.0 - 1.0) * lim
        }
    };
    v.clamp(-lim, lim)
}

#[derive(Clone, Copy, Debug, Serialize, Deserialize, PartialEq, Eq)]
pub struct Meta {
    /// 0 empty, 1 flat strings, 2 nested / unicode, 3 numbers, 4 large, 5 very large
    /// (hundreds of KiB, mostly incompressible text), 6 enormous (n MiB of repetitive text;
    /// never drawn at random, placed by the scenarios that want it)
    pub kind: u8,
    pub seed: u64,
    pub n: u32,
}

impl Meta {
    pub const EMPTY: Meta = Meta { kind: 0, seed: 0, n: 0 };
    pub fn draw(rng: &mut Rng) -> Meta {
        let kind = match rng.below(160) {
            0..=47 => 0,
            48..=79 => 1,
            80..=111 => 2,
            112..=143 => 3,
            144..=158 => 4,
            _ => 5,
        };
        Meta { kind, seed: rng.next_u64(), n: 1 + rng.below(8) as u32 }
    }
    pub fn map(&self) -> Map<String, Value> {
        let mut r = Rng::new(self.seed);
        let mut m = Map::new();
        match self.kind {
            0 => {}
            1 => {
                for i in 0..self.n {
                    m.insert(format!("key{i}"), Value::String(rand_string(&mut r)));
                }
            }
            2 => {
                for _ in 0..self.n {
                    let k = rand_string(&mut r);
                    let v = rand_value(&mut r, 3, false);
                    m.insert(k, v);
                }
            }
            3 => {
                for i in 0..self.n {
                    m.insert(format!("n{i}"), rand_number(&mut r, true));
                }
            }
            6 => {
                let unit = format!("{{layer {}: abcdefghijklmnopqrstuvwxyz é}} ", r.below(1000));
                let len = (self.n as usize) * (1 << 20) + r.usize_below(70_000);
                let mut t = String::with_capacity(len + unit.len());
                while t.len() < len {
                    t.push_str(&unit);
                }
                m.insert("description".into(), Value::String(t));
                m.insert("name".into(), Value::String("enormous".into()));
            }
            5 => {
                let alphabet = b"abcdefghijklmnopqrstuvwxyzABCDEFGHIJKLMNOPQRSTUVWXYZ0123456789-_ ";
                for i in 0..self.n.min(2) {
                    let len = 60_000 + r.usize_below(70_000);
                    let t: String = (0..len).map(|_| alphabet[r.usize_below(alphabet.len())] as char).collect();
                    m.insert(format!("blob{i}"), Value::String(t));
                }
            }
            _ => {
                let layers: Vec<Value> = (0..self.n * 40)
                    .map(|i| {
                        let mut o = Map::new();
                        o.insert("id".into(), Value::String(format!("layer{i}")));
                        o.insert("minzoom".into(), Value::from(i % 15));
                        o.insert("fields".into(), rand_value(&mut r, 2, false));
                        Value::Object(o)
                    })
                    .collect();
                m.insert("vector_layers".into(), Value::Array(layers));
                m.insert("attribution".into(), Value::String("<a href=\"https://example.org\">©</a>".into()));
            }
        }
        m
    }
}

fn rand_string(r: &mut Rng) -> String {
    let alphabet = ["a", "b", "Z", "0", " ", "\"", "\\", "/", "\n", "\u{0}", "é", "ß", "日本", "🗺", "\u{7f}", "\u{2028}", "<", "&"];
    let n = r.usize_below(12);
    (0..n).map(|_| *r.pick(&alphabet)).collect()
}

fn rand_number(r: &mut Rng, floats: bool) -> Value {
    match r.below(if floats { 9 } else { 5 }) {
        0 => Value::from(0),
        1 => Value::from(r.next_u64()),
        2 => Value::from(r.next_u64() as i64),
        3 => Value::from(*r.pick(&[u64::MAX, 1 << 53, (1 << 53) + 1])),
        4 => Value::from(*r.pick(&[i64::MIN, -1, i64::MAX])),
        5 => {
            // arbitrary finite double
            loop {
                let f = f64::from_bits(r.next_u64());
                if f.is_finite() {
                    break Number::from_f64(f).map_or(Value::Null, Value::Number);
                }
            }
        }
        6 => Number::from_f64((r.next_u64() as f64 / u64::MAX as f64) * 360.0 - 180.0).map_or(Value::Null, Value::Number),
        7 => Number::from_f64(*r.pick(&[0.1, 1e21, 1e-7, 5e-324, 1.7976931348623157e308, -0.0, 123456.789])).map_or(Value::Null, Value::Number),
        _ => Number::from_f64(r.below(1_000_000) as f64 / 1000.0).map_or(Value::Null, Value::Number),
    }
}

fn rand_value(r: &mut Rng, depth: u32, floats: bool) -> Value {
    match r.below(if depth == 0 { 5 } else { 7 }) {
        0 => Value::Null,
        1 => Value::Bool(r.chance(50)),
        2 => rand_number(r, floats),
        3 | 4 => Value::String(rand_string(r)),
        5 => Value::Array((0..r.below(4)).map(|_| rand_value(r, depth - 1, floats)).collect()),
        _ => {
            let mut m = Map::new();
            for _ in 0..r.below(4) {
                m.insert(rand_string(r), rand_value(r, depth - 1, floats));
            }
            Value::Object(m)
        }
    }
}

/// Non-object JSON values, for the C19 metadata-shape contract.
/// Valid JSON that is not an object. `kind % 8` selects the value kind; `kind / 8` > 0 varies the
/// document: leading/trailing blanks and, for strings and arrays, a long body of multi-byte
/// characters (lengths around powers of two).
pub fn non_object_json(kind: u8) -> String {
    let base = match kind % 8 {
        0 => "null",
        1 => "true",
        2 => "false",
        3 => "42",
        4 => "-1.5e3",
        5 => "\"a string\"",
        6 => "[]",
        _ => "[{\"a\":1},2]",
    };
    if kind / 8 == 0 {
        return base.to_string();
    }
    let mut r = Rng::new(0x4e4f_4e4f ^ u64::from(kind));
    let lead = " ".repeat(r.usize_below(4));
    let trail = ["", " ", "\n", "\r\n\t "][r.usize_below(4)];
    let n = *r.pick(&[0usize, 1, 7, 15, 16, 17, 30, 31, 32, 33, 62, 63, 64, 65, 100, 127, 128, 129, 255, 256, 257, 1000, 4097]);
    let ch = *r.pick(&["é", "ß", "日", "🗺", "\u{2028}", "a"]);
    let body = match kind % 8 {
        3 => "1234567890".repeat(1 + (n / 40).min(25)) + ".5e-3",
        5 => format!("\"{}\"", ch.repeat(n)),
        6 => format!("[{}]", vec![format!("\"{ch}\""); n.min(300)].join(",")),
        7 => format!("[{{\"{}\":1}},2]", ch.repeat(n)),
        _ => base.to_string(),
    };
    format!("{lead}{body}{trail}")
}

// ---------------------------------------------------------------------------------------------
// logical archive + reference model

#[derive(Clone, Debug, Serialize, Deserialize, PartialEq, Eq)]
pub struct Tile {
    pub id: u64,
    pub c: Cont,
}

#[derive(Clone, Debug, Serialize, Deserialize, PartialEq, Eq)]
pub struct Archive {
    /// insertion order; a later tile with the same id replaces an earlier one
    pub tiles: Vec<Tile>,
    pub meta: Meta,
    pub set: Settings,
    /// very large tile lists are stored as a generator spec (the list is a pure function of it)
    /// and materialised on demand, so that cases and replay files stay small
    #[serde(default)]
    pub gen: Option<BigGen>,
}

#[derive(Clone, Copy, Debug, Serialize, Deserialize, PartialEq, Eq)]
pub struct BigGen {
    /// 1 LongRun, 2 ManyRegular, 3 Gigantic, 4 Colossal, 5 Titanic, 6 MegaRegular
    pub class: u8,
    pub seed: u64,
}

impl Archive {
    /// Fills `tiles` from the generator spec (no-op for literal archives).
    pub fn materialise(&mut self) {
        if let Some(g) = self.gen {
            if self.tiles.is_empty() {
                self.tiles = big_tiles(g.class, g.seed);
            }
        }
    }
}

/// The reference model: an ordered map id → bytes (+ settings and metadata).
#[derive(Clone, Debug, Default)]
pub struct Model {
    pub tiles: BTreeMap<u64, Vec<u8>>,
}

impl Model {
    pub fn of(a: &Archive) -> Model {
        let mut m = Model::default();
        for t in &a.tiles {
            m.tiles.insert(t.id, t.c.bytes());
        }
        m
    }
    pub fn distinct_contents(&self) -> usize {
        let s: std::collections::HashSet<&Vec<u8>> = self.tiles.values().collect();
        s.len()
    }
    pub fn distinct_bytes(&self) -> u64 {
        let s: std::collections::HashSet<&Vec<u8>> = self.tiles.values().collect();
        s.iter().map(|v| v.len() as u64).sum()
    }
}


/// Tile list of a big archive class; a pure function of (class, seed).
pub fn big_tiles(class: u8, seed: u64) -> Vec<Tile> {
    let mut r = Rng::new(seed);
    let rng = &mut r;
    let mut tiles: Vec<Tile> = Vec::new();
    match class {
        6 => {
            // regular entries (consecutive ids, distinct 4-byte contents) well beyond 2^18, so the
            // plain directory is above 1 MiB while its compressed form still fits the root; around
            // entry numbers 2^16, 2^17 and 2^18 every entry is a run of 2-3 identical tiles, so
            // whatever is done per 2^16 entries meets a run at its boundary
            let n_entries = *rng.pick(&[270_000u64, 300_000, 300_000, 1_100_000]);
            let base = rng.below(50);
            let cseed = rng.next_u64() as u32 & 0x00ff_ffff;
            let mut id = base;
            tiles.reserve(n_entries as usize + 400);
            for e in 0..n_entries {
                let near = [1u64 << 16, 1 << 17, 1 << 18].iter().any(|b| e + 24 >= *b && e < *b + 24);
                let run = if near { 2 + rng.below(2) } else { 1 };
                for _ in 0..run {
                    tiles.push(Tile { id, c: Cont { k: 0, seed: cseed.wrapping_add(e as u32), len: 4 } });
                    id += 1;
                }
            }
        }
        5 => {
            // ids about 2^40 apart: a pointer to a 4096-entry leaf costs 13 bytes, so more than
            // 1251 leaves (5.13 million entries) push the first pointer root over the budget
            let n = 5_300_000 + rng.below(200_000);
            let mut id = rng.below(10);
            tiles.reserve(n as usize);
            for i in 0..n {
                tiles.push(Tile { id, c: Cont { k: 1, seed: (i % 3) as u32, len: 1 } });
                id += (1 << 39) + rng.below(1 << 39);
            }
        }
        4 => {
            let n = 1_250_000 + rng.below(150_000);
            let mut id = rng.below(10);
            tiles.reserve(n as usize);
            for i in 0..n {
                tiles.push(Tile { id, c: Cont { k: 1, seed: (i % 3) as u32, len: 1 } });
                id += 2 + rng.log_range(1, 1 << 18);
            }
        }
        3 => {
            let distinct = 262_144 + 2000 + rng.below(40_000);
            let cseed = rng.next_u64() as u32 & 0x00ff_ffff;
            let mut id = rng.below(10);
            for i in 0..distinct {
                tiles.push(Tile { id, c: Cont { k: 0, seed: cseed.wrapping_add(i as u32), len: 4 } });
                id += 1 + rng.below(3);
            }
            // repeats of early contents at higher ids
            for _ in 0..20_000 {
                id += 1 + rng.below(3);
                let j = rng.below(distinct / 2) as u32;
                tiles.push(Tile { id, c: Cont { k: 0, seed: cseed.wrapping_add(j), len: 4 } });
            }
        }
        2 => {
            let n = *rng.pick(&[65_536u64, 65_537, 70_000, 100_000]);
            let base = rng.below(50);
            let cseed = rng.next_u64() as u32 & 0x00ff_ffff;
            for i in 0..n {
                tiles.push(Tile { id: base + i, c: Cont { k: 0, seed: cseed.wrapping_add(i as u32), len: 4 } });
            }
        }
        1 => {
            let n = *rng.pick(&[65_535u64, 65_536, 65_537, 70_000, 131_073]);
            let base = if rng.chance(35) { 0 } else { rng.below(1000) };
            let c = Cont { k: 1, seed: rng.below(256) as u32, len: 1 + rng.below(3) as u32 };
            for i in 0..n {
                tiles.push(Tile { id: base + i, c });
            }
            if rng.chance(50) {
                tiles.push(Tile { id: base + n + 5, c: Cont { k: 0, seed: 9, len: 2 } });
            }
        }
        _ => {}
    }
    tiles
}

#[derive(Clone, Copy, Debug, PartialEq, Eq)]
pub enum SizeClass {
    Empty,
    One,
    Tens,
    Hundreds,
    /// thousands of high-entropy entries: forces leaf spill
    Huge,
    /// tile count steered so the encoded root directory lands around the window (16257, 16384]
    Window,
    /// one run of more than 65 536 consecutive ids sharing one content
    LongRun,
    /// more than 2^18 distinct contents, early contents repeating at higher ids
    Gigantic,
    /// about 1.3 million non-mergeable entries over three tiny contents: even 512-entry leaves
    /// give a pointer root above the budget
    Colossal,
    /// about 5.4 million non-mergeable entries at ids ~2^40 apart: the pointer root over
    /// 4096-entry leaves is above the budget, so the writer has to grow the leaves and retry
    Titanic,
    /// 270 000 - 1 100 000 regular entries with runs placed around entry numbers 2^16, 2^17, 2^18
    MegaRegular,
    /// more than 65 536 regular entries (distinct equal-size contents at consecutive ids): with a
    /// compressing codec they all fit one root directory
    ManyRegular,
}

pub fn draw_size(rng: &mut Rng, huge_pct: u64) -> SizeClass {
    if rng.chance(huge_pct) {
        return SizeClass::Huge;
    }
    match rng.below(20) {
        0 => SizeClass::Empty,
        1 | 2 => SizeClass::One,
        3..=14 => SizeClass::Tens,
        _ => SizeClass::Hundreds,
    }
}

/// Draws a logical archive. `Huge` produces 6 000–30 000 tiles with irregular ids and lengths so
/// the encoded root overflows 16 257 bytes under every codec.
pub fn draw_archive(rng: &mut Rng, size: SizeClass, ic: u8) -> Archive {
    let set = if rng.chance(70) { Settings::draw(rng, ic) } else { Settings::plain(ic) };
    let meta = Meta::draw(rng);
    let mut tiles = Vec::new();
    match size {
        SizeClass::MegaRegular | SizeClass::Titanic | SizeClass::Colossal | SizeClass::Gigantic | SizeClass::ManyRegular | SizeClass::LongRun => {
            let class = match size {
                SizeClass::LongRun => 1,
                SizeClass::ManyRegular => 2,
                SizeClass::Gigantic => 3,
                SizeClass::Titanic => 5,
                SizeClass::MegaRegular => 6,
                _ => 4,
            };
            return Archive { tiles: Vec::new(), meta, set, gen: Some(BigGen { class, seed: rng.next_u64() }) };
        }
        SizeClass::Window => {
            // distinct 4-byte contents, ids consecutive or sparse: the entry list (and so the
            // encoded root size) is known in advance; bisect the count against a target size
            let sparse = rng.chance(50);
            let base = rng.below(100);
            let cseed = rng.next_u64() as u32 & 0x00ff_ffff;
            let mut ids: Vec<u64> = Vec::with_capacity(9000);
            let mut id = base;
            for _ in 0..9000 {
                ids.push(id);
                id += if sparse { 1 + rng.log_range(1, 1 << 16) } else { 1 };
            }
            let entries: Vec<spec::SpecEntry> = ids.iter().enumerate().map(|(i, id)| spec::SpecEntry { tile_id: *id, offset: 4 * i as u64, length: 4, run_length: 1 }).collect();
            let target = 16_257 - 140 + rng.below(127 + 280) as usize;
            let size = |n: usize| spec::compress(ic, &spec::encode_dir(&entries[..n])).map_or(0, |b| b.len());
            let (mut lo, mut hi) = (1usize, entries.len());
            while lo < hi {
                let mid = (lo + hi) / 2;
                if size(mid) < target {
                    lo = mid + 1;
                } else {
                    hi = mid;
                }
            }
            for (i, id) in ids.iter().take(lo).enumerate() {
                tiles.push(Tile { id: *id, c: Cont { k: 0, seed: cseed.wrapping_add(i as u32), len: 4 } });
            }
            if rng.chance(30) {
                rng.shuffle(&mut tiles);
            }
        }
        SizeClass::Huge => {
            let n = rng.range(6000, 30_000);
            let mut id = rng.below(1000);
            for _ in 0..n {
                // mostly irregular gaps; a third of the ids follow their predecessor directly, so
                // ids can be contiguous across leaf-directory boundaries
                id += if rng.chance(33) { 1 } else { 1 + rng.log_range(1, 1 << 20) };
                let len = 1 + rng.below(40) as u32;
                tiles.push(Tile { id, c: Cont { k: 0, seed: rng.next_u64() as u32, len } });
            }
            // some duplicates and runs as well
            for _ in 0..rng.below(50) {
                let i = rng.usize_below(tiles.len());
                let c = tiles[rng.usize_below(tiles.len())].c;
                tiles[i].c = c;
            }
            if rng.chance(50) {
                rng.shuffle(&mut tiles);
            }
        }
        _ => {
            let n = match size {
                SizeClass::Empty => 0,
                SizeClass::One => 1,
                SizeClass::Tens => 2 + rng.below(40),
                _ => 50 + rng.below(350),
            };
            let alpha = draw_alpha(rng);
            let pool = match rng.below(4) {
                0 => ContPool::Colliding,
                1 => ContPool::Tagged,
                _ => ContPool::Mixed,
            };
            let mut total: u64 = 0;
            for _ in 0..n {
                let mut c = Cont::draw(rng, pool);
                // keep the whole archive below ~3 MiB of distinct content
                if total > 3_000_000 {
                    c.len = c.len.min(64);
                }
                total += u64::from(c.len);
                tiles.push(Tile { id: draw_id(rng, alpha), c });
            }
            // deliberate runs: consecutive ids sharing one content
            if n > 0 && rng.chance(40) {
                let base = draw_id(rng, alpha).min(spec::max_valid_id() - 64);
                let c = Cont::draw(rng, pool);
                for k in 0..2 + rng.below(12) {
                    tiles.push(Tile { id: base + k, c });
                }
            }
        }
    }
    Archive { tiles, meta, set, gen: None }
}

// ---------------------------------------------------------------------------------------------
// faces, ranges, misc

#[derive(Clone, Copy, Debug, Serialize, Deserialize, PartialEq, Eq, Hash)]
pub enum Face {
    Sync,
    Async,
}

impl Face {
    pub fn draw(rng: &mut Rng) -> Face {
        if rng.chance(50) {
            Face::Sync
        } else {
            Face::Async
        }
    }
}

#[derive(Clone, Copy, Debug, Serialize, Deserialize, PartialEq, Eq, Hash)]
pub enum Bnd {
    Inc(u64),
    Exc(u64),
    Unb,
}

#[derive(Clone, Copy, Debug, Serialize, Deserialize, PartialEq, Eq, Hash)]
pub struct RangeSpec(pub Bnd, pub Bnd);

impl RangeSpec {
    pub fn bounds(&self) -> (std::ops::Bound<u64>, std::ops::Bound<u64>) {
        let f = |b: Bnd| match b {
            Bnd::Inc(v) => std::ops::Bound::Included(v),
            Bnd::Exc(v) => std::ops::Bound::Excluded(v),
            Bnd::Unb => std::ops::Bound::Unbounded,
        };
        (f(self.0), f(self.1))
    }
    /// Reference semantics of membership, written out (not via std's RangeBounds::contains).
    pub fn contains(&self, id: u64) -> bool {
        let lo_ok = match self.0 {
            Bnd::Inc(v) => id >= v,
            Bnd::Exc(v) => id > v,
            Bnd::Unb => true,
        };
        let hi_ok = match self.1 {
            Bnd::Inc(v) => id <= v,
            Bnd::Exc(v) => id < v,
            Bnd::Unb => true,
        };
        lo_ok && hi_ok
    }
    pub const ALL: RangeSpec = RangeSpec(Bnd::Unb, Bnd::Unb);
}

/// A pair of policies (writer disk / reader disk) drawn for benign schedule noise.
#[derive(Clone, Debug, Serialize, Deserialize, PartialEq, Eq)]
pub struct Sched {
    pub w: Policy,
    pub r: Policy,
}

impl Sched {
    pub fn draw(rng: &mut Rng, wface: Face, rface: Face) -> Sched {
        Sched { w: Policy::draw(rng, wface == Face::Async), r: Policy::draw(rng, rface == Face::Async) }
    }
    pub fn plain() -> Sched {
        Sched { w: Policy::plain(), r: Policy::plain() }
    }
}
