//! Single-task executor owned by the simulator. It decides when a pending future is polled again
//! and detects a lost wake-up (future returned `Pending` with no wake outstanding).

use std::cell::RefCell;
use std::future::Future;
use std::pin::pin;
use std::sync::atomic::{AtomicBool, AtomicU64, Ordering};
use std::sync::Arc;
use std::task::{Context, Poll, Wake, Waker};

thread_local! {
    static DEFERRED: RefCell<Vec<Waker>> = const { RefCell::new(Vec::new()) };
    static POLLS: RefCell<u64> = const { RefCell::new(0) };
    static CALL_EPOCH: RefCell<u64> = const { RefCell::new(0) };
}

/// Every call into the system under test starts a new epoch; streams use it to give each API
/// call its own operation budget.
pub fn new_call_epoch() {
    CALL_EPOCH.with(|e| *e.borrow_mut() += 1);
}
pub fn call_epoch() -> u64 {
    CALL_EPOCH.with(|e| *e.borrow())
}

/// A stream registers a wake-up that the executor delivers after the future returned `Pending`.
pub fn defer_wake(w: Waker) {
    DEFERRED.with(|d| d.borrow_mut().push(w));
}

struct Flag {
    woken: AtomicBool,
    wakes: AtomicU64,
}
impl Wake for Flag {
    fn wake(self: Arc<Self>) {
        self.wake_by_ref();
    }
    fn wake_by_ref(self: &Arc<Self>) {
        self.woken.store(true, Ordering::SeqCst);
        self.wakes.fetch_add(1, Ordering::SeqCst);
    }
}

#[derive(Debug, Clone, PartialEq, Eq)]
pub enum ExecError {
    /// the future returned Pending and nothing will ever wake it
    LostWake { polls: u64 },
    /// poll budget exhausted
    Runaway { polls: u64 },
}

pub const POLL_BUDGET: u64 = 200_000_000;

/// Total polls performed on this thread (for evidence counters).
pub fn polls_total() -> u64 {
    POLLS.with(|p| *p.borrow())
}

pub fn block_on<F: Future>(fut: F) -> Result<F::Output, ExecError> {
    block_on_cancel(fut, || false).map(|o| o.expect("not cancellable"))
}

/// Like `block_on`, but after every `Pending` the simulator may decide to cancel: the future is
/// dropped on the spot (its pending stream operation is never completed) and `None` is returned.
pub fn block_on_cancel<F: Future>(fut: F, cancel: impl Fn() -> bool) -> Result<Option<F::Output>, ExecError> {
    // wake-ups left over from an earlier, abandoned future must not leak into this one
    DEFERRED.with(|d| d.borrow_mut().clear());
    let flag = Arc::new(Flag { woken: AtomicBool::new(false), wakes: AtomicU64::new(0) });
    let waker = Waker::from(flag.clone());
    let mut cx = Context::from_waker(&waker);
    let mut fut = pin!(fut);
    let mut polls = 0u64;
    loop {
        polls += 1;
        flag.woken.store(false, Ordering::SeqCst);
        match fut.as_mut().poll(&mut cx) {
            Poll::Ready(v) => {
                POLLS.with(|p| *p.borrow_mut() += polls);
                DEFERRED.with(|d| d.borrow_mut().clear());
                return Ok(Some(v));
            }
            Poll::Pending => {
                if cancel() {
                    POLLS.with(|p| *p.borrow_mut() += polls);
                    DEFERRED.with(|d| d.borrow_mut().clear());
                    return Ok(None);
                }
                let deferred: Vec<Waker> = DEFERRED.with(|d| std::mem::take(&mut *d.borrow_mut()));
                for w in deferred {
                    w.wake();
                }
                if !flag.woken.load(Ordering::SeqCst) {
                    POLLS.with(|p| *p.borrow_mut() += polls);
                    return Err(ExecError::LostWake { polls });
                }
                if polls >= POLL_BUDGET {
                    POLLS.with(|p| *p.borrow_mut() += polls);
                    return Err(ExecError::Runaway { polls });
                }
            }
        }
    }
}
