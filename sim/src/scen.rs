//! Scenario framework: a scenario generates a serializable case from a seed, executes it against
//! the real crate on simulated disks, and proposes simplifications for minimisation.

use std::collections::BTreeMap;

use serde_json::Value;

use crate::case::{Archive, Cont, Meta, Settings, Tile};
use crate::disk::{DiskStats, Pend, Policy, SimDisk, Xfer};
use crate::rng::{hash_str, Rng};
use crate::sut::V;

#[derive(Clone, Copy, Debug, PartialEq, Eq)]
pub enum Tier {
    Quick,
    Thorough,
}

/// Per-run context: counters for evidence, signatures for distinct-case counting, digest for the
/// determinism self-test, optional trace for replay files.
#[derive(Default)]
pub struct Ctx {
    pub counters: BTreeMap<String, u64>,
    pub sigs: Vec<u64>,
    /// signatures of model states reached (history scenarios)
    pub states: Vec<u64>,
    /// signatures of the schedule policies under which streams were driven
    pub scheds: Vec<u64>,
    pub evals: u64,
    pub digest: u64,
    pub trace: Option<Vec<String>>,
    pub notes: Vec<String>,
}

impl Ctx {
    pub fn bump(&mut self, k: &str, n: u64) {
        if n > 0 {
            *self.counters.entry(k.to_string()).or_insert(0) += n;
        }
    }
    pub fn sig(&mut self, s: u64) {
        self.sigs.push(s);
    }
    pub fn sig_str(&mut self, s: &str) {
        self.sigs.push(hash_str(s));
    }
    pub fn mix(&mut self, v: u64) {
        self.digest = (self.digest ^ v).wrapping_mul(0x0000_0100_0000_01B3).rotate_left(29);
    }
    pub fn trace(&mut self, f: impl FnOnce() -> String) {
        if let Some(t) = &mut self.trace {
            if t.len() < 400 {
                t.push(f());
            }
        }
    }
    /// Folds a disk's statistics into the counters and its operation digest into the run digest.
    pub fn absorb(&mut self, d: &SimDisk) {
        let s: DiskStats = d.stats();
        if self.scheds.len() < 64 {
            self.scheds.push(d.policy_sig());
        }
        self.bump("sim_stream_ops", s.ops);
        self.bump("sim_bytes_read", s.bytes_read);
        self.bump("sim_bytes_written", s.bytes_written);
        self.bump("fired_short_reads", s.short_reads);
        self.bump("fired_short_writes", s.short_writes);
        self.bump("fired_pending", s.pendings);
        self.bump("fired_inline_wakes", s.inline_wakes);
        self.bump("fired_deferred_wakes", s.deferred_wakes);
        self.bump("fired_injected_errors", s.faults_fired);
        self.bump("probe_writes_after_close", s.writes_after_close);
        self.bump("abandoned_pending_ops", u64::from(d.has_abandoned_op()));
        self.mix(d.digest());
    }
}

pub trait Scenario: Sync + Send {
    fn name(&self) -> &'static str;
    /// One-line description of how cases are generated and what counts as distinct/non-trivial.
    fn rule(&self) -> String;
    fn generate(&self, rng: &mut Rng, tier: Tier, run: u64) -> Value;
    fn execute(&self, case: &Value, ctx: &mut Ctx) -> V<()>;
    fn shrink(&self, _case: &Value) -> Vec<Value> {
        Vec::new()
    }
    /// Number of meaningful runs when the scenario enumerates a finite list (None = seeded).
    fn enumerated(&self, _tier: Tier) -> Option<u64> {
        None
    }
    /// Cases of this scenario may kill the process (abort, stack overflow): run them in child
    /// processes.
    fn isolated(&self) -> bool {
        false
    }
    /// Cases so cheap (microseconds) and so numerous that a thread per case would dominate the
    /// batch: they run on the worker thread itself.
    fn light(&self) -> bool {
        false
    }
}

pub fn to_value<T: serde::Serialize>(t: &T) -> Value {
    serde_json::to_value(t).expect("case serialises")
}

pub fn from_value<T: serde::de::DeserializeOwned>(v: &Value) -> T {
    serde_json::from_value(v.clone()).expect("case deserialises")
}

pub fn case_sig(v: &Value) -> u64 {
    hash_str(&v.to_string())
}

// ---------------------------------------------------------------------------------------------
// shrink helpers

pub fn shrink_policy(p: &Policy) -> Vec<Policy> {
    let mut out = Vec::new();
    if !p.is_plain() {
        out.push(Policy { rd: Xfer::Full, wr: Xfer::Full, pend: Pend::NEVER, seed: p.seed });
        if p.pend.rate != 0 {
            out.push(Policy { pend: Pend::NEVER, ..p.clone() });
        }
        if p.rd != Xfer::Full {
            out.push(Policy { rd: Xfer::Full, ..p.clone() });
        }
        if p.wr != Xfer::Full {
            out.push(Policy { wr: Xfer::Full, ..p.clone() });
        }
        if p.rd != Xfer::One && p.rd != Xfer::Full {
            out.push(Policy { rd: Xfer::One, ..p.clone() });
        }
        if p.wr != Xfer::One && p.wr != Xfer::Full {
            out.push(Policy { wr: Xfer::One, ..p.clone() });
        }
    }
    out
}

pub fn shrink_tiles(tiles: &[Tile]) -> Vec<Vec<Tile>> {
    let mut out = Vec::new();
    let n = tiles.len();
    if n == 0 {
        return out;
    }
    if n > 1 {
        out.push(tiles[..n / 2].to_vec());
        out.push(tiles[n / 2..].to_vec());
        if n > 8 {
            for k in 0..4 {
                let lo = k * n / 4;
                let hi = (k + 1) * n / 4;
                let mut v = tiles[..lo].to_vec();
                v.extend_from_slice(&tiles[hi..]);
                out.push(v);
            }
        }
    }
    if n <= 24 {
        for i in 0..n {
            let mut v = tiles.to_vec();
            v.remove(i);
            out.push(v);
        }
        for i in 0..n {
            let t = &tiles[i];
            if t.c.len > 1 {
                let mut v = tiles.to_vec();
                v[i].c = Cont { k: t.c.k, seed: t.c.seed, len: 1 };
                out.push(v);
            }
            if t.c.k != 1 {
                let mut v = tiles.to_vec();
                v[i].c = Cont { k: 1, seed: t.c.seed & 0xff, len: t.c.len };
                out.push(v);
            }
            if t.id > 8 {
                let mut v = tiles.to_vec();
                v[i].id = i as u64;
                out.push(v);
            }
        }
    } else {
        // global simplifications for big lists
        if tiles.iter().any(|t| t.c.len > 1) {
            out.push(tiles.iter().map(|t| Tile { id: t.id, c: Cont { len: 1, ..t.c } }).collect());
        }
    }
    out
}

pub fn shrink_archive(a: &Archive) -> Vec<Archive> {
    let mut out = Vec::new();
    if a.gen.is_none() {
        for t in shrink_tiles(&a.tiles) {
            out.push(Archive { tiles: t, ..a.clone() });
        }
    }
    if a.meta != Meta::EMPTY {
        out.push(Archive { meta: Meta::EMPTY, ..a.clone() });
        if a.meta.n > 1 {
            out.push(Archive { meta: Meta { n: 1, ..a.meta }, ..a.clone() });
        }
    }
    let plain = Settings::plain(a.set.ic);
    if a.set != plain {
        out.push(Archive { set: plain.clone(), ..a.clone() });
        // keep coordinates but reset the rest, and vice versa
        out.push(Archive { set: Settings { coords: a.set.coords, ..plain.clone() }, ..a.clone() });
        for i in 0..6 {
            if a.set.coords[i] != 0 {
                let mut s = a.set.clone();
                s.coords[i] = 0;
                out.push(Archive { set: s, ..a.clone() });
            }
        }
    }
    if a.set.ic != 1 {
        let mut s = a.set.clone();
        s.ic = 1;
        out.push(Archive { set: s, ..a.clone() });
    }
    out
}
