#!/bin/sh
# Runs the thorough tier of every claimed check once (binary built once up front).
HERE=$(cd "$(dirname "$0")/.." && pwd)
cd "$HERE/sim" && CARGO_NET_OFFLINE=true cargo build --release --offline >/dev/null 2>&1 || { echo "build failed"; exit 2; }
BIN="$HERE/sim/target/release/pmtsim"
for p in ${*:-$("$BIN" list)}; do
  /usr/bin/time -f "$p thorough wall %es" "$BIN" check "$p" thorough 2>&1 | grep -E "VIOLATION|KNOWN|wall|exit|violation in|harness" | cut -c1-400
done
