#!/bin/sh
# eval_seed.sh <seeded dir> [property ids...]: applies the change to /repo, runs the quick check of
# each listed property (default: the change's own property), records which checks report it,
# and restores /repo. Never commits anything to /repo.
D=$(cd "$1" && pwd); N=$(basename "$D"); shift
OWN=$(echo "$N" | cut -d- -f1)
PROPS=${*:-$OWN}
cd /repo || exit 2
if [ -n "$(git status --porcelain --untracked-files=no)" ]; then echo "/repo is not clean"; exit 2; fi
git apply "$D/patch.diff" || { echo "$N: patch does not apply"; exit 2; }
out="$D/eval.txt"; : > "$out"
for p in $PROPS; do
  t0=$(date +%s)
  VERIF_NO_EVIDENCE=1 /verif/check "$p" quick > /tmp/eval_$N_$p.log 2>&1; rc=$?
  t1=$(date +%s)
  v=$(grep -m1 '^VIOLATION' /tmp/eval_$N_$p.log)
  cls=$(grep -m1 -o 'violation in scenario [^ ]* run [0-9]* (seed [0-9]*): \[[^]]*\]' /tmp/eval_$N_$p.log)
  echo "$N check=$p exit=$rc secs=$((t1-t0)) $cls" | tee -a "$out"
  if [ "$rc" = "1" ] && [ "$p" = "$OWN" ]; then
    f=$(echo "$v" | sed -n 's/.*replay=\(.*\)$/\1/p'); [ -f "$f" ] && cp "$f" "$D/replay.json"
  fi
  if [ "$rc" = "2" ]; then tail -5 /tmp/eval_$N_$p.log | tee -a "$out"; fi
  rm -f /tmp/eval_$N_$p.log
done
git -C /repo checkout -- . 
rm -f /verif/replays/*.json; rm -rf /verif/replays/tmp
