#!/bin/sh
# eval_lanes.sh <lanes> <jobs per lane> <seeded dir>...: regression re-run of many kept changes in
# parallel. Each lane owns a scratch git worktree of /repo and a scratch copy of /verif (sim, py,
# check, known_findings.json) whose path dependency points at that worktree, so /repo itself stays
# clean (a `vp check` snapshot or a `vp run` build never sees a half-applied change). Per change:
# apply to the lane's worktree, rebuild, run the own property's quick check, restore. Results go to
# <seeded dir>/eval.txt exactly as tools/eval_seed.sh writes them. Lanes are removed at the end.
# (tools/eval_seed.sh, which applies the change to /repo itself, remains the reference procedure.)
L=$1; J=$2; shift 2
BASE=/tmp/evl; rm -rf $BASE; mkdir -p $BASE
i=0
while [ $i -lt $L ]; do
  d=$BASE/$i; mkdir -p $d/verif
  git -C /repo worktree add -q --detach $d/repo HEAD || exit 2
  rsync -a --exclude target --exclude replays --exclude evidence --exclude seeded --exclude .git /verif/sim /verif/py /verif/findings /verif/check /verif/known_findings.json /verif/properties.jsonl $d/verif/
  sed -i "s|path = \"/repo\"|path = \"$d/repo\"|" $d/verif/sim/Cargo.toml
  # share nothing but the registry; warm the lane's target dir from the main one
  cp -r /verif/sim/target $d/verif/sim/target 2>/dev/null
  : > $d/list
  i=$((i+1))
done
i=0
for s in "$@"; do echo "$s" >> $BASE/$((i % L))/list; i=$((i+1)); done
lane() {
  d=$BASE/$1
  while read -r S; do
    D=$(cd "$S" && pwd); N=$(basename "$D"); P=$(echo "$N" | cut -d- -f1)
    git -C $d/repo apply "$D/patch.diff" || { echo "$N: patch does not apply" > "$D/eval.txt"; continue; }
    t0=$(date +%s)
    VERIF_JOBS=$J VERIF_NO_EVIDENCE=1 $d/verif/check "$P" quick > $d/log 2>&1; rc=$?
    t1=$(date +%s)
    cls=$(grep -m1 -o 'violation in scenario [^ ]* run [0-9]* (seed [0-9]*): \[[^]]*\]' $d/log)
    echo "$N check=$P exit=$rc secs=$((t1-t0)) $cls" > "$D/eval.txt"
    if [ "$rc" = "2" ]; then tail -5 $d/log >> "$D/eval.txt"; fi
    if [ "$rc" = "1" ]; then
      f=$(grep -m1 '^VIOLATION' $d/log | sed -n 's/.*replay=\(.*\)$/\1/p')
      [ -f "$f" ] && [ "$(stat -c %s "$f")" -lt 1000000 ] && cp "$f" "$D/replay.json"
    fi
    git -C $d/repo checkout -- .
    rm -rf $d/verif/replays
  done < $d/list
}
i=0
while [ $i -lt $L ]; do lane $i & i=$((i+1)); done
wait
i=0
while [ $i -lt $L ]; do git -C /repo worktree remove --force $BASE/$i/repo; i=$((i+1)); done
rm -rf $BASE; git -C /repo worktree prune
cat $(for s in "$@"; do echo "$s/eval.txt"; done) | grep -c "exit=1" | sed 's/^/detected: /'
