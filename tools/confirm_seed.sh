#!/bin/sh
# confirm_seed.sh <seeded dir>: in a scratch worktree (never /repo itself) confirm that the change
# applies, compiles (default + async), keeps the existing suite green, and that the demonstration
# fails with the change and passes without it. Prints one summary line.
D=$(cd "$1" && pwd); N=$(basename "$D")
WT=/tmp/wt_confirm_$N
export CARGO_NET_OFFLINE=true CARGO_TARGET_DIR=/tmp/confirm_target_$N
git -C /repo worktree remove --force "$WT" >/dev/null 2>&1
git -C /repo worktree add -q --detach "$WT" HEAD || { echo "$N: worktree failed"; exit 2; }
cd "$WT" || exit 2
FEAT=""; grep -q 'features async' "$D/agent_meta.json" 2>/dev/null && FEAT="--features async"
res=""
if git apply "$D/patch.diff" 2>/dev/null; then res="applies"; else echo "$N: PATCH DOES NOT APPLY"; git -C /repo worktree remove --force "$WT"; exit 1; fi
cargo build --offline --features async >/dev/null 2>&1 && res="$res,builds-async" || res="$res,ASYNC-BUILD-FAILS"
if cargo test --workspace --no-fail-fast --offline >"$D/suite_with_patch.log" 2>&1; then res="$res,suite-green"; else res="$res,SUITE-RED"; fi
mkdir -p tests && cp "$D/demo.rs" tests/demo.rs
if cargo test --offline $FEAT --test demo >"$D/demo_with_patch.log" 2>&1; then res="$res,DEMO-PASSES-WITH-PATCH"; else res="$res,demo-fails-with-patch"; fi
git checkout -q -- . 
if cargo test --offline $FEAT --test demo >"$D/demo_clean.log" 2>&1; then res="$res,demo-passes-clean"; else res="$res,DEMO-FAILS-CLEAN"; fi
cd /; git -C /repo worktree remove --force "$WT"; rm -rf /tmp/confirm_target_$N
echo "$N: $res"
