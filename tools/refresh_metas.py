#!/usr/bin/env python3
"""refresh_metas.py: copies the own-property line of each seeded/<id>/eval.txt into meta.json's
detection.result, keeping recorded cross-check lines (other properties' checks) as they are."""
import json, glob, os
n = 0
for d in sorted(glob.glob('/verif/seeded/C*')):
    name = os.path.basename(d); own = name.split('-')[0]
    mp, ep = os.path.join(d, 'meta.json'), os.path.join(d, 'eval.txt')
    if not (os.path.exists(mp) and os.path.exists(ep)):
        continue
    m = json.load(open(mp))
    new = [l.strip() for l in open(ep) if l.startswith(name + ' check=')]
    new_own = [l for l in new if ('check=%s ' % own) in l]
    old = m.get('detection', {}).get('result') or []
    if isinstance(old, str): old = [old]
    cross = [l for l in old if l.startswith(name + ' check=') and ('check=%s ' % own) not in l]
    cross_new = [l for l in new if ('check=%s ' % own) not in l]
    seen = set(); res = []
    for l in new_own + cross_new + cross:
        key = l.split(' exit=')[0]
        if key not in seen:
            seen.add(key); res.append(l)
    m.setdefault('detection', {})['result'] = res
    if not os.path.exists(os.path.join(d, 'replay.json')):
        m['replay_file_when_detected'] = None
    json.dump(m, open(mp, 'w'), indent=1, ensure_ascii=False); n += 1
print(n, 'metas refreshed')
