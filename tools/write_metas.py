#!/usr/bin/env python3
"""write_metas.py <suffix> <confirm log> <origin text>: turns each seeded/<P>-<suffix>{a,b}/agent_meta.json
(+ confirmation line + eval.txt) into meta.json, keeps an existing assessment, removes logs."""
import json, os, sys, glob
suf, conf, origin = sys.argv[1], sys.argv[2], sys.argv[3]
confirmed = {}
for l in open(conf):
    if ':' in l:
        k, v = l.split(':', 1); confirmed[k.strip()] = v.strip()
for d in sorted(glob.glob('/verif/seeded/*-%s[ab]' % suf)):
    n = os.path.basename(d)
    am = os.path.join(d, 'agent_meta.json')
    old = json.load(open(os.path.join(d, 'meta.json'))) if os.path.exists(os.path.join(d, 'meta.json')) else {}
    a = json.load(open(am)) if os.path.exists(am) else old
    res = [l.strip() for l in open(os.path.join(d, 'eval.txt')) if l.startswith(n)]
    m = {
        'id': n, 'property': n.split('-')[0], 'title': a.get('title'), 'what_it_breaks': a.get('what_it_breaks'),
        'needs_to_manifest': a.get('needs_to_manifest'), 'files_touched': a.get('files_touched'),
        'origin': origin,
        'demo': old.get('demo') or {'file': 'demo.rs', 'cmd': a.get('demo_cmd'), 'how': 'copied to tests/demo.rs of a scratch worktree'},
        'confirmed_in_scratch_worktree': confirmed.get(n, old.get('confirmed_in_scratch_worktree')),
        'confirmation_cmd': 'tools/confirm_seed.sh seeded/' + n,
        'detection': {'cmd': 'tools/eval_seed.sh seeded/' + n, 'result': res},
        'assessment': old.get('assessment'),
        'replay_file_when_detected': 'replay.json' if os.path.exists(os.path.join(d, 'replay.json')) and os.path.getsize(os.path.join(d, 'replay.json')) < 1_000_000 else None,
    }
    json.dump(m, open(os.path.join(d, 'meta.json'), 'w'), indent=1, ensure_ascii=False)
    for f in ('agent_meta.json', 'demo_clean.log', 'demo_with_patch.log', 'suite_with_patch.log'):
        p = os.path.join(d, f)
        if os.path.exists(p): os.remove(p)
    rp = os.path.join(d, 'replay.json')
    if os.path.exists(rp) and os.path.getsize(rp) >= 1_000_000: os.remove(rp)
print('metas written')
