#!/bin/sh
# process_wave.sh <worktree prefix, e.g. /tmp/w3_> <suffix, e.g. w3>: collects the sub-agents'
# deliverables into seeded/<P>-<suffix>{a,b}, confirms each in a scratch worktree (4 in parallel)
# and then evaluates each against its own property's quick check (sequentially: /repo is shared).
PRE=$1; SUF=$2; cd /verif/seeded || exit 2
for p in C01 C02 C03 C04 C06 C08 C09 C10 C11 C12 C13 C14 C15 C16 C17 C18 C19 C20; do
  for v in a b; do
    if [ -f ${PRE}$p/.out/$v/patch.diff ] && [ -f ${PRE}$p/.out/$v/meta.json ]; then
      d=$p-$SUF$v; mkdir -p $d
      cp ${PRE}$p/.out/$v/patch.diff ${PRE}$p/.out/$v/demo.rs $d/
      cp ${PRE}$p/.out/$v/meta.json $d/agent_meta.json
    fi
  done
done
cd /verif
ls -d seeded/*-${SUF}[ab]/ | xargs -P 4 -n 1 tools/confirm_seed.sh > /tmp/confirm_$SUF.log 2>&1
for d in seeded/*-${SUF}[ab]; do tools/eval_seed.sh $d; done > /tmp/eval_$SUF.log 2>&1
echo "wave $SUF processed: $(grep -c 'exit=1' /tmp/eval_$SUF.log) detected of $(wc -l < /tmp/eval_$SUF.log)"
