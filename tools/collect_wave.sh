#!/bin/sh
# collect_wave.sh <prefix e.g. /tmp/w8_> <suffix e.g. w8> <P>...: copy the deliverables of the named
# properties into seeded/<P>-<suffix>{a,b} and confirm each in a scratch worktree (parallel).
PRE=$1; SUF=$2; shift 2
cd /verif/seeded || exit 2
L=""
for p in "$@"; do for v in a b; do
  if [ -f ${PRE}$p/.out/$v/patch.diff ] && [ -f ${PRE}$p/.out/$v/meta.json ]; then
    d=$p-$SUF$v; mkdir -p $d
    cp ${PRE}$p/.out/$v/patch.diff ${PRE}$p/.out/$v/demo.rs $d/
    cp ${PRE}$p/.out/$v/meta.json $d/agent_meta.json
    L="$L seeded/$d"
  fi
done; done
cd /verif
echo $L | xargs -P 6 -n 1 tools/confirm_seed.sh
