#!/bin/sh
# sweep_seeds.sh <first> <last> [tier]: runs every claimed check under VERIF_SEED=first..last on
# the unchanged tree; any exit != 0 is printed (a false alarm to triage or a genuine defect).
HERE=$(cd "$(dirname "$0")/.." && pwd)
cd "$HERE/sim" && CARGO_NET_OFFLINE=true cargo build --release --offline >/dev/null 2>&1 || { echo "build failed"; exit 2; }
BIN="$HERE/sim/target/release/pmtsim"; TIER=${3:-quick}; bad=0
for seed in $(seq "$1" "$2"); do
  for p in $("$BIN" list); do
    out=$(VERIF_NO_EVIDENCE=1 VERIF_SEED=$seed "$BIN" check "$p" "$TIER" 2>&1); rc=$?
    if [ $rc -ne 0 ]; then bad=1; echo "NONZERO seed=$seed property=$p exit=$rc"; echo "$out" | tail -4; fi
  done
  echo "seed $seed done"
done
exit $bad
