#!/usr/bin/env python3
"""Regenerates /verif/MANIFEST.json from the table below and validates it against the schema."""
import json, os, sys
ROOT = os.path.dirname(os.path.dirname(os.path.abspath(__file__)))

TRUST = ("Sampling over seeds, not proof. Trusted: the harness oracles (reference model, spec-derived reader/validator/writer in sim/src/spec.rs), "
         "the codec libraries shared by crate and oracle, rustc. Real: whole pmtiles2 crate from /repo's working tree (features async,verif; overflow checks on). "
         "Stubs: byte stream (SimDisk) and the single-task executor.")

CHECKS = {
 "C01": ("exploration", "§4 C01", "seeded simulation: build→save on simulated disk→restart→reopen under benign short-transfer/Pending schedules, compared with a reference map model",
         "Every run builds an archive through the public API, writes it with the sync or async writer onto a SimDisk that fragments writes and answers Pending, drops all in-memory state, reopens the surviving image through a second SimDisk and compares ids, every tile's bytes (by id and by z/x/y via an independent Hilbert implementation), absent-id probes, metadata, header settings and the exact nearest-1e-7 rule for coordinates against the model. Exploration over seeds is the right level: the claim is universally quantified over inputs × configurations and no finite enumeration covers it."),
 "C02": ("exploration", "§4 C02", "seeded simulation: every durable image produced by lifecycle runs is parsed by an independent spec-derived validator and lookup procedure",
         "Each written image is validated by code written from the v3 specification that shares nothing with the crate: header layout, section containment and disjointness, 16 KiB root budget, directory decoding with the declared codec, ordering, tile ranges, JSON-object metadata, the three counters recomputed, the clustered rule, and the specification's lookup procedure returning the added bytes."),
 "C06": ("exploration", "§4 C06", "seeded simulation: leaf-spilling archives written on simulated disks, root/leaf structure re-derived by the independent reader",
         "Archives large and irregular enough to overflow the 16 257-byte root are written under fragmenting schedules; the independent reader checks root budget, pointer-only root, first-id/offset/length of every pointer, cumulative offsets, and that resolving root+leaves gives exactly the added ids."),
 "C10": ("exploration", "§4 C10", "seeded simulation: dedup/run-length invariants derived from the reference model, checked on every saved image",
         "On every saved image the independent reader checks tile-data length = sum of distinct content lengths, equal content ⇔ equal (offset,length), disjoint ranges otherwise, no mergeable neighbours, and counters."),
}

NA = {
 "C05": "Pure function between an in-memory entry list and a byte string: no stream schedule, fault, crash point, history or stream position in the statement, so deterministic simulation has nothing to decide (DESIGN §5.2); its stream-facing behaviour is decided under C12/C13/C15/C19.",
 "C07": "Pure integer arithmetic on (z,x,y)/ids with no stream, state, schedule or fault; not a simulation target (DESIGN §5.2). The lookup 'never a crash' clause is exercised under C08.",
}
PENDING = "check under construction in this session; not claimed until its scenario exists (see DESIGN §4)"
ALL = ["C%02d" % i for i in range(1, 21)]

def main():
    checks = []
    for pid in ALL:
        if pid not in CHECKS:
            continue
        level, ref, tech, text = CHECKS[pid]
        checks.append({
            "property_id": pid,
            "quick_cmd": f"./check {pid} quick",
            "thorough_cmd": f"./check {pid} thorough",
            "evidence_file": f"/verif/evidence/{pid}.json",
            "replay_cmd_template": "./check --replay {path}",
            "engine": "pmtsim",
            "level_claimed": {"category": level, "text": text, "design_ref": ref},
            "level_note": TRUST,
            "technique": tech,
        })
    na = []
    for pid in ALL:
        if pid in CHECKS:
            continue
        na.append({"property_id": pid, "reason": NA.get(pid, PENDING)})
    m = {
        "version": 1,
        "setup_cmd": "cd /verif/sim && CARGO_NET_OFFLINE=true cargo build --release --offline",
        "hooks": {
            "guard": "verif (cargo feature of pmtiles2, off by default)",
            "enable": "sim/Cargo.toml depends on pmtiles2 = { path = \"/repo\", features = [\"async\", \"verif\"] }; every check rebuilds through that path dependency",
            "baseline_off_cmd": "cd /repo && cargo test --workspace --no-fail-fast --offline",
            "source_commits": ["715bdfe"],
            "add_only": True,
        },
        "engines": [{
            "name": "pmtsim",
            "path": "/verif/sim",
            "serves_properties": sorted(CHECKS.keys()),
            "kind_free_text": "deterministic simulator: seeded SimDisk (Read/Write/Seek + AsyncRead/AsyncWrite/AsyncSeek) with short transfers, Pending, fail-stop errors, crash prefixes and stored-byte corruption; single-task executor with lost-wake detection; reference model and independent spec reader/validator/writer as oracles; seeded parallel search, minimisation, replay files",
        }],
        "checks": checks,
        "not_applicable": na,
        "notes": "Exit codes: 0 held on everything explored, 1 VIOLATION (replay file written and reproduced in a fresh process first), 2 harness/build error. VERIF_SEED selects the seed (default 20260926); VERIF_JOBS the worker count (verdict and digest independent of it). Genuine defects repaired in /repo are listed in known_findings.json.",
    }
    path = os.path.join(ROOT, "MANIFEST.json")
    json.dump(m, open(path, "w"), indent=1)
    open(path, "a").write("\n")
    try:
        import jsonschema
        jsonschema.validate(m, json.load(open("/root/.vp/MANIFEST.schema.json")))
        print("MANIFEST.json valid;", len(checks), "checks,", len(na), "not claimed")
    except ImportError:
        print("jsonschema not available; written without validation")

if __name__ == "__main__":
    main()
