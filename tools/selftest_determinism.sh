#!/bin/sh
# Runs every claimed check (reduced run counts) several times: in different OS processes, with 1, 3
# and 16 workers and under two seeds; the merged event-log digests must be pairwise identical per
# (property, seed). Exit 0 = deterministic, 1 = divergence found.
HERE=$(cd "$(dirname "$0")/.." && pwd)
BIN="$HERE/sim/target/release/pmtsim"
SCALE=${SCALE:-0.25}
fail=0
for seed in ${SEEDS:-20260926 7}; do
  for p in $("$BIN" list); do
    ref=""
    for jobs in 16 1 3 16; do
      d=$(VERIF_NO_EVIDENCE=1 VERIF_SEED=$seed VERIF_JOBS=$jobs VERIF_RUNS_SCALE=$SCALE "$BIN" check "$p" quick 2>&1 | sed -n 's/.*digest \([0-9a-f]*\) -> exit \([0-9]\).*/\1:\2/p')
      if [ -z "$ref" ]; then ref="$d"; fi
      if [ "$d" != "$ref" ] || [ -z "$d" ]; then echo "DIVERGENCE property=$p seed=$seed jobs=$jobs: $d vs $ref"; fail=1; fi
    done
    echo "$p seed=$seed digest:exit=$ref"
  done
done
exit $fail
