#!/usr/bin/env python3
"""Independent PMTiles v3 reader (stdlib only; internal compression none or gzip), written from
the specification text. Used by the C02 check as a second, unrelated implementation.

stdin:  8-byte little-endian image length | image | JSON {"tiles": [[id, length, crc32], ...],
        "absent": [id, ...]}
stdout: "OK <n>" or "FAIL <reason>"; exit code 0 in both cases (2 on usage errors)."""
import json
import struct
import sys
import zlib


def fail(msg):
    print("FAIL " + msg)
    sys.exit(0)


def varint(buf, pos):
    shift = 0
    val = 0
    while True:
        if pos >= len(buf):
            fail("varint runs past the end of a directory")
        b = buf[pos]
        pos += 1
        val |= (b & 0x7F) << shift
        if b < 0x80:
            return val, pos
        shift += 7
        if shift > 63:
            fail("varint longer than 10 bytes")


def main():
    raw = sys.stdin.buffer.read()
    if len(raw) < 8:
        sys.exit(2)
    (n,) = struct.unpack("<Q", raw[:8])
    img = raw[8 : 8 + n]
    want = json.loads(raw[8 + n :].decode("utf-8"))

    if len(img) < 127:
        fail("shorter than a header")
    if img[:7] != b"PMTiles":
        fail("magic")
    if img[7] != 3:
        fail("version %d" % img[7])
    (root_off, root_len, meta_off, meta_len, leaf_off, leaf_len, data_off, data_len, n_addr, n_entries, n_contents) = struct.unpack("<11Q", img[8:96])
    clustered, ic, tc, tt, minz, maxz = img[96:102]
    if ic not in (1, 2):
        print("SKIP codec %d" % ic)
        return
    if root_off < 127 or root_off + root_len > 16384:
        fail("header + root directory must lie in the first 16 KiB (root %d+%d)" % (root_off, root_len))
    secs = [("root", root_off, root_len), ("meta", meta_off, meta_len), ("leaf", leaf_off, leaf_len), ("data", data_off, data_len)]
    for name, off, ln in secs:
        if off + ln > len(img):
            fail("%s section outside the file" % name)
        if ln and off < 127:
            fail("%s section overlaps the header" % name)
    for i in range(len(secs)):
        for j in range(i + 1, len(secs)):
            (_, a, al), (_, b, bl) = secs[i], secs[j]
            if al and bl and a < b + bl and b < a + al:
                fail("sections %s and %s overlap" % (secs[i][0], secs[j][0]))

    def plain(b):
        if ic == 1:
            return b
        d = zlib.decompressobj(31)
        out = d.decompress(b)
        if not d.eof:
            fail("gzip stream not terminated")
        if d.unused_data:
            fail("garbage after the gzip stream")
        return out

    def read_dir(off, ln):
        buf = plain(img[off : off + ln])
        cnt, p = varint(buf, 0)
        ids, runs, lens, offs = [], [], [], []
        last = 0
        for _ in range(cnt):
            d, p = varint(buf, p)
            last += d
            ids.append(last)
        for _ in range(cnt):
            v, p = varint(buf, p)
            runs.append(v)
        for _ in range(cnt):
            v, p = varint(buf, p)
            if v == 0:
                fail("entry of length 0")
            lens.append(v)
        for i in range(cnt):
            v, p = varint(buf, p)
            if v == 0:
                if i == 0:
                    fail("first offset is 0")
                offs.append(offs[i - 1] + lens[i - 1])
            else:
                offs.append(v - 1)
        if p != len(buf):
            fail("directory has %d trailing bytes" % (len(buf) - p))
        for i in range(1, cnt):
            if ids[i] < ids[i - 1] + max(runs[i - 1], 1):
                fail("entries not ascending / overlapping at tile %d" % ids[i])
        return ids, runs, lens, offs

    def lookup(tid):
        off, ln = root_off, root_len
        for _depth in range(5):
            ids, runs, lens, offs = read_dir(off, ln)
            # last entry with id <= tid
            lo, hi = 0, len(ids) - 1
            found = -1
            while lo <= hi:
                mid = (lo + hi) // 2
                if ids[mid] <= tid:
                    found = mid
                    lo = mid + 1
                else:
                    hi = mid - 1
            if found < 0:
                return None
            if runs[found] == 0:
                off, ln = leaf_off + offs[found], lens[found]
                if off < leaf_off or off + ln > leaf_off + leaf_len:
                    fail("leaf pointer outside the leaf section")
                continue
            if tid - ids[found] < runs[found]:
                if offs[found] + lens[found] > data_len:
                    fail("tile %d outside the tile data section" % tid)
                return img[data_off + offs[found] : data_off + offs[found] + lens[found]]
            return None
        fail("directories nested deeper than 4 levels")

    # walk everything once for the counters
    addressed = 0
    entries = 0
    contents = set()
    stack = [(root_off, root_len)]
    seen_ids = []
    while stack:
        off, ln = stack.pop()
        ids, runs, lens, offs = read_dir(off, ln)
        for i in range(len(ids)):
            if runs[i] == 0:
                stack.append((leaf_off + offs[i], lens[i]))
            else:
                addressed += runs[i]
                entries += 1
                contents.add((offs[i], lens[i]))
                if runs[i] <= 4096:
                    seen_ids.extend(range(ids[i], ids[i] + runs[i]))
    if (addressed, entries, len(contents)) != (n_addr, n_entries, n_contents):
        fail("header counters (%d,%d,%d) != recomputed (%d,%d,%d)" % (n_addr, n_entries, n_contents, addressed, entries, len(contents)))
    if meta_len:
        m = json.loads(plain(img[meta_off : meta_off + meta_len]).decode("utf-8"))
        if not isinstance(m, dict):
            fail("metadata is not a JSON object")
    if sorted(seen_ids) != sorted(t[0] for t in want["tiles"]):
        fail("directories address %d ids, %d were added" % (len(seen_ids), len(want["tiles"])))
    for tid, ln, crc in want["tiles"]:
        b = lookup(tid)
        if b is None:
            fail("lookup does not find tile %d" % tid)
        if len(b) != ln or (zlib.crc32(b) & 0xFFFFFFFF) != crc:
            fail("lookup of tile %d returns different bytes" % tid)
    for tid in want["absent"]:
        if lookup(tid) is not None:
            fail("lookup finds absent tile %d" % tid)
    print("OK %d" % len(want["tiles"]))


if __name__ == "__main__":
    main()
